//! C13 rig (see DESIGN.md section 3/C13): heartbeat expiry of ephemeral HTTP instances as bounded progress.
//!
//! A stand-alone real `NamingActor` (own thread/system, as `starter::config_factory` creates it) gets a small
//! `Arc<AppSysConfig>` injected through a `bean_factory::BeanFactory` (health time-out 0 s, instance time-out 1 s; the
//! actor adds 3 s, so H = 3 s, T = 4 s) and runs its own 2 s timer on the real wall clock. About 400 instances per run
//! follow seeded timelines concurrently (register / heartbeat / silence / resume / replace / flip ephemeral<->persistent /
//! switch HTTP<->gRPC owner / take-over from a failed node). Every 250 ms every service is queried
//! (`QueryAllInstanceList` and the healthy-only `QueryList`). The oracle works on the RECORDED call/ack times.
use crate::util::{rng, Args, Report};
use bean_factory::{BeanDefinition, BeanFactory};
use rand::rngs::StdRng;
use rand::Rng;
use rnacos::common::hash_utils::get_hash_value;
use rnacos::common::AppSysConfig;
use rnacos::naming::cluster::model::ProcessRange;
use rnacos::naming::core::{NamingActor, NamingCmd, NamingResult};
use rnacos::naming::model::{Instance, InstanceUpdateTag, ServiceKey};
use rnacos::naming::verif_hooks::VerifNamingProbe;
use serde_json::{json, Value};
use std::cell::RefCell;
use std::collections::HashMap;
use std::rc::Rc;
use std::sync::Arc;
use std::time::{Duration, Instant};

const H: i64 = 3000; // naming_health_timeout 0 + 3000 added by NamingActor::inject
const T: i64 = 4000; // naming_instance_timeout 1000 + 3000
const TICK: i64 = 2000; // NamingActor::instance_time_out_heartbeat
const SLACK: i64 = 1500;
const EPS: i64 = 20; // early side: the recorded call time is a true lower bound of last_modified_millis (same clock)
const RUN_MS: u64 = 25_000;
const QUERY_MS: u64 = 250;
const NODE_ID: u64 = 7;
const STALL_MS: i64 = 400;

fn now_ms() -> i64 {
    use std::time::{SystemTime, UNIX_EPOCH};
    SystemTime::now().duration_since(UNIX_EPOCH).unwrap().as_millis() as i64
}

#[derive(Clone, Debug, PartialEq)]
enum Op {
    /// HTTP POST /instance: Update(instance, Some(tag{enabled, ephemeral, from_update})) - or tag None (the shape the
    /// cluster's SyncUpdateInstance uses) when `tagged` is false
    HttpReg { ephemeral: bool, tagged: bool },
    /// HTTP PUT /instance/beat: Update(instance, Some(all-false tag))
    Beat,
    /// gRPC InstanceRequest: Update(instance{from_grpc, client_id}, Some(tag{metadata}))
    GrpcReg,
    /// connection closed: RemoveClient(client_id)
    RemoveClient,
    /// HTTP DELETE /instance
    Dereg,
    /// copy pushed by the owning node 2: UpdateBatch([instance{from_cluster: 2}])
    SyncIn,
    /// a (stale) copy of an instance THIS node supervises, pushed by node 2 in a snapshot / batch: UpdateBatch([.. from_cluster 2])
    SyncCopy,
    /// global: ClusterRefreshProcessRange((0,1)) - node 2 failed, the local node is responsible for everything
    TakeOver,
}

impl Op {
    fn name(&self) -> String {
        match self {
            Op::HttpReg { ephemeral, tagged } => format!("http-register(ephemeral={},{})", ephemeral, if *tagged { "http-tag" } else { "no-tag" }),
            Op::Beat => "http-beat".into(),
            Op::GrpcReg => "grpc-register".into(),
            Op::RemoveClient => "grpc-client-removed".into(),
            Op::Dereg => "http-deregister".into(),
            Op::SyncIn => "sync-from-owner-node-2".into(),
            Op::SyncCopy => "copy-of-own-instance-pushed-by-node-2".into(),
            Op::TakeOver => "take-over(range 0/1)".into(),
        }
    }
}

struct Timeline {
    idx: usize,
    kind: String,
    svc: usize,
    port: u32,
    client_id: Arc<String>,
    steps: Vec<(u64, Op)>,
}

#[derive(Clone, Debug)]
struct Ev {
    op: Op,
    call: i64,
    ack: i64,
}

fn beats(steps: &mut Vec<(u64, Op)>, from: u64, until: u64, period: u64, op: Op) -> u64 {
    let mut t = from + period;
    let mut last = from;
    while t <= until {
        steps.push((t, op.clone()));
        last = t;
        t += period;
    }
    last
}

fn plan(r: &mut StdRng, n: usize, n_even: usize, n_odd: usize, tf_ms: u64) -> Vec<Timeline> {
    let periods = [500u64, 1000, 2000, 2400];
    let mut out = vec![];
    let mut idx = 0;
    let mut push = |out: &mut Vec<Timeline>, kind: String, svc: usize, steps: Vec<(u64, Op)>| {
        out.push(Timeline { idx, kind, svc, port: 10_000 + idx as u32, client_id: Arc::new(format!("{}_{}", NODE_ID, 9000 + idx)), steps });
        idx += 1;
    };
    // anchors: one always-healthy instance per service, so that the protection threshold (all unhealthy -> all listed
    // as healthy) never masks the healthy-only list. Even services: steadily heart-beating HTTP; odd: gRPC-owned.
    for s in 0..n_even {
        let mut st = vec![(0, Op::HttpReg { ephemeral: true, tagged: true })];
        beats(&mut st, 0, RUN_MS - 100, 1000, Op::Beat);
        push(&mut out, "anchor-steady".into(), s, st);
    }
    for s in 0..n_odd {
        push(&mut out, "anchor-grpc".into(), n_even + s, vec![(0, Op::GrpcReg)]);
    }
    while out.len() < n {
        let p = periods[r.gen_range(0..4)];
        let t0 = r.gen_range(100..5000u64);
        let d = r.gen_range(1000..5000u64);
        let even = r.gen_range(0..n_even);
        let odd = n_even + r.gen_range(0..n_odd);
        let reg = Op::HttpReg { ephemeral: true, tagged: true };
        let mut st = vec![];
        match r.gen_range(0..100) {
            0..=9 => {
                st.push((t0, reg));
                beats(&mut st, t0, t0 + d, p, Op::Beat);
                push(&mut out, format!("silent/p{}", p), even, st);
            }
            10..=13 => {
                // silent; meanwhile another node pushes its (stale) copy of this locally supervised instance (naming snapshot
                // exchange / batch sync). A copy is not a heartbeat: the instance still has to expire.
                st.push((t0, reg));
                let last = beats(&mut st, t0, t0 + d, p, Op::Beat);
                let g = if r.gen_bool(0.6) { r.gen_range(300..2700u64) } else { r.gen_range(3200..5200u64) };
                st.push((last + g, Op::SyncCopy));
                push(&mut out, format!("sync-copy-during-silence-{}", if g < H as u64 { "while-H-entry-queued" } else { "while-T-entry-queued" }), even, st);
            }
            14..=21 => {
                st.push((t0, reg));
                beats(&mut st, t0, RUN_MS - 200, p, Op::Beat);
                push(&mut out, format!("steady/p{}", p), even, st);
            }
            22..=41 => {
                // silence of a chosen length, then the heartbeats resume
                st.push((t0, reg));
                let last = beats(&mut st, t0, t0 + d, p, Op::Beat);
                let (band, g) = match r.gen_range(0..6) {
                    0 => ("just-before-H", r.gen_range(2600..2950u64)),
                    1 => ("just-after-H", r.gen_range(3050..3500u64)),
                    2 => ("around-T", r.gen_range(3800..4200u64)),
                    3 => ("between-T-and-bound", r.gen_range(5000..6000u64)),
                    4 => ("after-H-bound", r.gen_range(6700..7300u64)),
                    _ => ("after-T-bound", r.gen_range(7700..8500u64)),
                };
                let back = last + g;
                st.push((back, Op::Beat));
                let d2 = r.gen_range(500..2500u64);
                beats(&mut st, back, back + d2, p, Op::Beat);
                push(&mut out, format!("resume-{}/p{}", band, p), even, st);
            }
            42..=53 => {
                // replaced (re-registered / deregistered+registered) while an expiry entry is queued
                st.push((t0, reg));
                let last = beats(&mut st, t0, t0 + d, p, Op::Beat);
                let g = r.gen_range(500..4500u64);
                let how = r.gen_range(0..3);
                let name = match how {
                    0 => {
                        st.push((last + g, Op::HttpReg { ephemeral: true, tagged: true }));
                        "replace-http-register"
                    }
                    1 => {
                        st.push((last + g, Op::HttpReg { ephemeral: true, tagged: false }));
                        "replace-untagged-update"
                    }
                    _ => {
                        st.push((last + g, Op::Dereg));
                        st.push((last + g + r.gen_range(0..300u64), Op::HttpReg { ephemeral: true, tagged: true }));
                        "deregister-then-register"
                    }
                };
                push(&mut out, format!("{}-{}", name, if g < H as u64 { "while-H-entry-queued" } else { "while-T-entry-queued" }), even, st);
            }
            54..=65 => {
                // flipped to persistent while an expiry is pending, possibly back later
                st.push((t0, reg));
                let last = beats(&mut st, t0, t0 + d, p, Op::Beat);
                let g = r.gen_range(500..4500u64);
                st.push((last + g, Op::HttpReg { ephemeral: false, tagged: true }));
                let mut name = format!("flip-to-persistent-{}", if g < H as u64 { "while-H-entry-queued" } else { "while-T-entry-queued" });
                if r.gen_bool(0.5) {
                    let u = last + g + r.gen_range(3000..6000u64);
                    st.push((u, Op::HttpReg { ephemeral: true, tagged: true }));
                    name.push_str("-then-back-to-ephemeral");
                } else if r.gen_bool(0.5) {
                    // heartbeats of the old client keep coming for the now persistent instance, then stop
                    beats(&mut st, last + g, last + g + 3000, p, Op::Beat);
                    name.push_str("-then-beats");
                }
                push(&mut out, name, even, st);
            }
            66..=70 => {
                st.push((t0, Op::HttpReg { ephemeral: false, tagged: true }));
                let mut name = "persistent-first".to_string();
                if r.gen_bool(0.6) {
                    st.push((t0 + r.gen_range(4500..9000u64), Op::HttpReg { ephemeral: true, tagged: true }));
                    name.push_str("-then-ephemeral");
                }
                push(&mut out, name, even, st);
            }
            71..=80 => {
                // owner switches HTTP -> gRPC while an expiry is pending; possibly back to HTTP later
                st.push((t0, reg));
                let last = beats(&mut st, t0, t0 + d, p, Op::Beat);
                let g = r.gen_range(500..4500u64);
                st.push((last + g, Op::GrpcReg));
                let mut name = format!("http-to-grpc-{}", if g < H as u64 { "while-H-entry-queued" } else { "while-T-entry-queued" });
                let mut t = last + g;
                if r.gen_bool(0.5) {
                    t = beats(&mut st, t, t + 2500, p, Op::Beat);
                    name.push_str("-http-beats-continue");
                }
                if r.gen_bool(0.5) {
                    let u = t + r.gen_range(3000..5000u64);
                    st.push((u, Op::RemoveClient));
                    st.push((u + r.gen_range(50..1500u64), Op::HttpReg { ephemeral: true, tagged: true }));
                    name.push_str("-then-back-to-http");
                }
                push(&mut out, name, even, st);
            }
            81..=84 => {
                st.push((t0, Op::GrpcReg));
                let mut name = "grpc-first".to_string();
                if r.gen_bool(0.5) {
                    beats(&mut st, t0, t0 + d, p, Op::Beat);
                    name.push_str("-with-http-beats");
                }
                push(&mut out, name, even, st);
            }
            85..=93 => {
                // copy synced from owner node 2 (beats forwarded by the owner), node 2 fails, nothing arrives any more
                let stop = tf_ms - r.gen_range(150..5000u64);
                let t0 = t0.min(stop.saturating_sub(600));
                st.push((t0, Op::SyncIn));
                beats(&mut st, t0, stop, p, Op::SyncIn);
                push(&mut out, "take-over-then-silent".to_string(), odd, st);
            }
            _ => {
                // same, but the client finds the surviving node and keeps heart-beating there for a while
                let stop = tf_ms - r.gen_range(150..3000u64);
                let t0 = t0.min(stop.saturating_sub(600));
                st.push((t0, Op::SyncIn));
                beats(&mut st, t0, stop, p, Op::SyncIn);
                let first = tf_ms + r.gen_range(200..2500u64);
                st.push((first, Op::Beat));
                beats(&mut st, first, first + r.gen_range(500..3000u64), p, Op::Beat);
                push(&mut out, "take-over-then-direct-beats".to_string(), odd, st);
            }
        }
    }
    out
}

fn mk_instance(svc: &ServiceKey, port: u32) -> Instance {
    let mut i = Instance::new("10.1.1.1".to_string(), port);
    i.namespace_id = svc.namespace_id.clone();
    i.group_name = svc.group_name.clone();
    i.service_name = svc.service_name.clone();
    i.generate_key();
    i
}

fn cmd_of(op: &Op, svc: &ServiceKey, port: u32, client_id: &Arc<String>) -> NamingCmd {
    let mut i = mk_instance(svc, port);
    match op {
        Op::HttpReg { ephemeral, tagged } => {
            i.ephemeral = *ephemeral;
            let tag = InstanceUpdateTag { weight: false, metadata: false, enabled: true, ephemeral: true, from_update: true };
            NamingCmd::Update(i, if *tagged { Some(tag) } else { None })
        }
        Op::Beat => {
            let tag = InstanceUpdateTag { weight: false, metadata: false, enabled: false, ephemeral: false, from_update: false };
            NamingCmd::Update(i, Some(tag))
        }
        Op::GrpcReg => {
            i.from_grpc = true;
            i.client_id = client_id.clone();
            let tag = InstanceUpdateTag { weight: false, metadata: true, enabled: false, ephemeral: false, from_update: false };
            NamingCmd::Update(i, Some(tag))
        }
        Op::RemoveClient => NamingCmd::RemoveClient(client_id.clone()),
        Op::Dereg => NamingCmd::Delete(i),
        Op::SyncIn | Op::SyncCopy => {
            i.from_cluster = 2;
            NamingCmd::UpdateBatch(vec![i])
        }
        Op::TakeOver => NamingCmd::ClusterRefreshProcessRange(ProcessRange::new(0, 1)),
    }
}

// ------------------------------------------------------------------------------------------------ model + oracle

#[derive(Clone, Debug, PartialEq)]
enum Mode {
    /// nothing is demanded (never registered, deregistered, client removed, or copy owned by another node)
    Unknown,
    Http,
    Persistent,
    Grpc,
    Remote,
    TakenOver,
}

#[derive(Clone, Debug)]
struct St {
    mode: Mode,
    /// call / ack time of the operation that last refreshed last_modified_millis
    c: i64,
    a: i64,
    tf: i64,
    origin: &'static str,
}

fn fold(st: &St, ev: &Ev) -> St {
    let mut s = st.clone();
    match &ev.op {
        Op::HttpReg { ephemeral: true, .. } => {
            if s.mode != Mode::Grpc {
                s.origin = match s.mode {
                    Mode::Persistent => "flipped-back-to-ephemeral",
                    Mode::Http => "re-registered",
                    Mode::Unknown if s.origin == "grpc-client-removed" => "http-register-after-grpc-disconnect",
                    Mode::Unknown if s.origin == "deregistered" => "registered-after-deregister",
                    _ => "registered",
                };
                s.mode = Mode::Http;
                s.c = ev.call;
                s.a = ev.ack;
            }
        }
        Op::HttpReg { ephemeral: false, .. } => {
            s.origin = if s.mode == Mode::Http { "flipped-to-persistent" } else { "registered-persistent" };
            s.mode = Mode::Persistent;
            s.c = ev.call;
            s.a = ev.ack;
        }
        Op::Beat => match s.mode {
            Mode::Http => {
                s.c = ev.call;
                s.a = ev.ack;
            }
            Mode::Unknown => {
                s.mode = Mode::Http;
                s.origin = "created-by-beat";
                s.c = ev.call;
                s.a = ev.ack;
            }
            Mode::TakenOver => {
                s.mode = Mode::Http;
                s.origin = "direct-beat-after-take-over";
                s.c = ev.call;
                s.a = ev.ack;
            }
            Mode::Remote => {
                // not generated: a direct beat for a service the local node is not responsible for
                s.mode = Mode::Unknown;
            }
            Mode::Persistent | Mode::Grpc => {}
        },
        Op::GrpcReg => {
            s.origin = if s.mode == Mode::Http { "switched-http-to-grpc" } else { "grpc-registered" };
            s.mode = Mode::Grpc;
            s.c = ev.call;
            s.a = ev.ack;
        }
        Op::RemoveClient => {
            if s.mode == Mode::Grpc {
                s.mode = Mode::Unknown;
                s.origin = "grpc-client-removed";
            }
        }
        Op::Dereg => {
            s.mode = Mode::Unknown;
            s.origin = "deregistered";
        }
        Op::SyncIn => {
            if s.mode == Mode::Unknown || s.mode == Mode::Remote {
                s.mode = Mode::Remote;
                s.origin = "synced-from-owner";
                s.c = ev.call;
                s.a = ev.ack;
            }
        }
        Op::SyncCopy => {
            if s.mode == Mode::Http {
                // lenient: the late bounds are counted from the copy's arrival (an implementation may treat it as a refresh),
                // the early bounds stay on the last real heartbeat (an implementation may just as well ignore the copy)
                s.a = s.a.max(ev.ack);
                s.origin = "sync-copy-overwrote-supervised-instance";
            }
        }
        Op::TakeOver => {
            if s.mode == Mode::Remote {
                s.mode = Mode::TakenOver;
                s.origin = "taken-over-from-failed-node";
                s.tf = ev.ack;
            }
        }
    }
    s
}

/// observation of one instance in one query: 'H' listed healthy, 'U' listed unhealthy, 'A' absent
#[derive(Clone, Copy, PartialEq, Debug)]
enum Seen {
    Healthy,
    Unhealthy,
    Absent,
}

struct Query {
    call: i64,
    ack: i64,
    /// port -> healthy flag
    list: HashMap<u32, bool>,
}

struct Verdict {
    symptom: &'static str,
    rule: String,
    late: bool,
}

/// what the restated property demands of an observation made in [q.call, q.ack] when the instance is in state `st`.
/// `healthy_only` = the observation comes from the healthy-only list (absent there = unhealthy or absent).
fn demand(st: &St, q_call: i64, q_ack: i64, seen: Seen, healthy_only: bool) -> (u8, Option<Verdict>) {
    // returns (number of must-rules that applied, first violated rule)
    let mut applied = 0u8;
    let mut bad: Option<Verdict> = None;
    let mut check = |cond: bool, ok: bool, symptom: &'static str, rule: String, late: bool| {
        if cond {
            applied += 1;
            if !ok && bad.is_none() {
                bad = Some(Verdict { symptom, rule, late });
            }
        }
    };
    match st.mode {
        Mode::Http | Mode::TakenOver => {
            let (dl_h, dl_t) = if st.mode == Mode::Http {
                (st.a + H + TICK + SLACK, st.a + T + TICK + SLACK)
            } else {
                // the take-over node can only start its clock when it learns that it is responsible (tf); it walks the
                // instance through "unhealthy" first, hence two ticks for the removal
                ((st.a + H).max(st.tf) + TICK + SLACK, (st.a + T).max(st.tf) + 2 * TICK + SLACK)
            };
            if !healthy_only {
                check(q_ack < st.c + T - EPS, seen != Seen::Absent, "removed-before-instance-timeout",
                      format!("absent {} ms after the call of the last refresh, i.e. before last_refresh_call+T", q_ack - st.c), false);
                check(q_ack < st.c + H - EPS, seen != Seen::Unhealthy, "unhealthy-before-health-timeout",
                      format!("unhealthy {} ms after the call of the last refresh, i.e. before last_refresh_call+H", q_ack - st.c), false);
                check(q_call > dl_t, seen == Seen::Absent, "still-present-after-instance-timeout-bound",
                      format!("observed {} ms after the acknowledged last refresh; bound {} ms", q_call - st.a, dl_t - st.a), true);
            } else {
                check(q_ack < st.c + H - EPS, seen == Seen::Healthy, "not-listed-healthy-before-health-timeout",
                      format!("not in the healthy-only list {} ms after the call of the last refresh, i.e. before last_refresh_call+H", q_ack - st.c), false);
            }
            check(q_call > dl_h, seen != Seen::Healthy, "still-healthy-after-health-timeout-bound",
                  format!("observed {} ms after the acknowledged last refresh; bound {} ms", q_call - st.a, dl_h - st.a), true);
        }
        Mode::Persistent | Mode::Grpc => {
            check(true, seen == Seen::Healthy, "expired-although-not-subject-to-heartbeat-clock",
                  format!("observed {} ms after the acknowledged {}", q_call - st.a, st.origin), false);
        }
        Mode::Unknown | Mode::Remote => {}
    }
    (applied, bad)
}

struct RunOut {
    stalled: bool,
}

async fn one_run(seed: u64, n_inst: usize, rep: &mut Report) -> anyhow::Result<RunOut> {
    let mut r = rng(seed);
    // ---- the actor, configured as starter.rs does it
    let sys_config = Arc::new(AppSysConfig {
        raft_node_id: NODE_ID,
        naming_health_timeout: 0,
        naming_instance_timeout: 1000,
        ..Default::default()
    });
    let factory = BeanFactory::new();
    factory.register(BeanDefinition::from_obj(sys_config.clone()));
    let naming = NamingActor::create_at_new_system();
    factory.register(BeanDefinition::actor_with_inject_from_obj(naming.clone()));
    let _fd = factory.init().await;
    let t = Instant::now();
    loop {
        let p = naming.send(VerifNamingProbe).await?;
        if p["node_id"].as_u64() == Some(NODE_ID) {
            break;
        }
        if t.elapsed() > Duration::from_secs(3) {
            anyhow::bail!("NamingActor was not injected with the short time-outs within 3 s");
        }
        tokio::time::sleep(Duration::from_millis(20)).await;
    }
    // ---- services: even hash = in the local range (0,2); odd hash = owned by node 2 until it fails
    let (n_even, n_odd) = (12usize, 6usize);
    let mut even = vec![];
    let mut odd = vec![];
    let mut i = 0;
    while even.len() < n_even || odd.len() < n_odd {
        i += 1;
        let k = ServiceKey::new("public", "DEFAULT_GROUP", &format!("c13-{}-{}", seed, i));
        if get_hash_value(&k) % 2 == 0 {
            if even.len() < n_even {
                even.push(k)
            }
        } else if odd.len() < n_odd {
            odd.push(k)
        }
    }
    let services: Vec<ServiceKey> = even.into_iter().chain(odd.into_iter()).collect();
    let tf_ms: u64 = r.gen_range(8000..10_000);
    let tls = plan(&mut r, n_inst, n_even, n_odd, tf_ms);
    // cluster of two nodes, the local one has index 0
    naming
        .send(NamingCmd::ClusterRefreshProcessRange(ProcessRange::new(0, 2)))
        .await?
        .map_err(|e| anyhow::anyhow!("refresh range: {}", e))?;

    let start = Instant::now();
    let start_ms = now_ms();
    let events: Vec<Rc<RefCell<Vec<Ev>>>> = tls.iter().map(|_| Rc::new(RefCell::new(vec![]))).collect();
    let taken_over = Rc::new(RefCell::new(false));
    let errors = Rc::new(RefCell::new(0u64));
    let mut handles = vec![];
    for tl in &tls {
        let naming = naming.clone();
        let rec = events[tl.idx].clone();
        let svc = services[tl.svc].clone();
        let steps = tl.steps.clone();
        let (port, client_id) = (tl.port, tl.client_id.clone());
        let taken_over = taken_over.clone();
        let errors = errors.clone();
        handles.push(actix_rt::spawn(async move {
            for (at, op) in steps {
                tokio::time::sleep_until(tokio::time::Instant::from_std(start + Duration::from_millis(at))).await;
                if op == Op::SyncIn && *taken_over.borrow() {
                    continue; // the owner is dead: it cannot forward anything any more
                }
                let cmd = cmd_of(&op, &svc, port, &client_id);
                let call = now_ms();
                let res = naming.send(cmd).await;
                let ack = now_ms();
                match res {
                    Ok(Ok(_)) => rec.borrow_mut().push(Ev { op, call, ack }),
                    _ => *errors.borrow_mut() += 1,
                }
            }
        }));
    }
    // the global take-over
    let takeover_ev: Rc<RefCell<Option<Ev>>> = Rc::new(RefCell::new(None));
    {
        let naming = naming.clone();
        let taken_over = taken_over.clone();
        let takeover_ev = takeover_ev.clone();
        handles.push(actix_rt::spawn(async move {
            tokio::time::sleep_until(tokio::time::Instant::from_std(start + Duration::from_millis(tf_ms))).await;
            *taken_over.borrow_mut() = true;
            let call = now_ms();
            let res = naming.send(NamingCmd::ClusterRefreshProcessRange(ProcessRange::new(0, 1))).await;
            let ack = now_ms();
            if let Ok(Ok(_)) = res {
                *takeover_ev.borrow_mut() = Some(Ev { op: Op::TakeOver, call, ack });
            }
        }));
    }
    // ---- the observer: every 250 ms both lists of every service; also measures stalls of this thread and of the actor
    let mut q_all: Vec<Vec<Query>> = services.iter().map(|_| vec![]).collect();
    let mut q_healthy: Vec<Vec<Query>> = services.iter().map(|_| vec![]).collect();
    let mut max_lag = 0i64;
    let mut tick = 0u64;
    while tick * QUERY_MS < RUN_MS {
        tick += 1;
        let due = start + Duration::from_millis(tick * QUERY_MS);
        tokio::time::sleep_until(tokio::time::Instant::from_std(due)).await;
        max_lag = max_lag.max(Instant::now().saturating_duration_since(due).as_millis() as i64);
        for (si, svc) in services.iter().enumerate() {
            let call = now_ms();
            let res = naming.send(NamingCmd::QueryAllInstanceList(svc.clone())).await;
            let ack = now_ms();
            max_lag = max_lag.max(ack - call);
            if let Ok(Ok(NamingResult::InstanceList(list))) = res {
                q_all[si].push(Query { call, ack, list: list.iter().map(|i| (i.port, i.healthy)).collect() });
            }
            let call = now_ms();
            let res = naming.send(NamingCmd::QueryList(svc.clone(), "".to_string(), true, None)).await;
            let ack = now_ms();
            max_lag = max_lag.max(ack - call);
            if let Ok(Ok(NamingResult::InstanceList(list))) = res {
                q_healthy[si].push(Query { call, ack, list: list.iter().map(|i| (i.port, i.healthy)).collect() });
            }
        }
    }
    for h in handles {
        h.abort();
    }
    let probe = naming.send(VerifNamingProbe).await?;
    let stalled = max_lag > STALL_MS;
    rep.count("runs", 1);
    rep.count("max_lag_ms_sum", max_lag as u64);
    if stalled {
        rep.count("runs_with_stall", 1);
    }
    rep.count("harness_send_errors", *errors.borrow());
    let tk = takeover_ev.borrow().clone();
    if tk.is_none() {
        anyhow::bail!("the take-over message was not acknowledged");
    }
    let tk = tk.unwrap();
    // index the probe
    let mut probe_inst: HashMap<u32, Value> = HashMap::new();
    let mut probe_svc: HashMap<String, Value> = HashMap::new();
    for s in probe["services"].as_array().cloned().unwrap_or_default() {
        for i in s["instances"].as_array().cloned().unwrap_or_default() {
            probe_inst.insert(i["port"].as_u64().unwrap_or(0) as u32, i);
        }
        probe_svc.insert(
            s["service"].as_str().unwrap_or("").to_string(),
            json!({"healthy_timeout_set_len": s["healthy_timeout_set_len"], "unhealthy_timeout_set_len": s["unhealthy_timeout_set_len"], "instance_size": s["instance_size"]}),
        );
    }
    // anchors healthy per query tick (healthy-only list is only a pure filter while one instance of the service is healthy)
    let anchor_port: Vec<u32> = (0..services.len()).map(|s| tls.iter().find(|t| t.svc == s && t.kind.starts_with("anchor")).map(|t| t.port).unwrap_or(0)).collect();

    // ---- the oracle
    for tl in &tls {
        let mut evs: Vec<Ev> = events[tl.idx].borrow().clone();
        if tl.svc >= n_even {
            evs.push(tk.clone());
        }
        evs.sort_by_key(|e| e.call);
        if evs.is_empty() {
            continue;
        }
        rep.evaluations += 1;
        // states after each prefix
        let mut states = vec![];
        let mut st = St { mode: Mode::Unknown, c: 0, a: 0, tf: 0, origin: "never-registered" };
        for e in &evs {
            st = fold(&st, e);
            states.push(st.clone());
        }
        let mut obs_string = String::new();
        let mut judged = 0u64;
        let mut in_band = 0u64;
        let mut expiry_pending = false;
        let views: [(&Vec<Query>, bool); 2] = [(&q_all[tl.svc], false), (&q_healthy[tl.svc], true)];
        for (qs, healthy_only) in views {
            for (qi, q) in qs.iter().enumerate() {
                // definite prefix: operations acknowledged before the query was sent; operations in flight -> skip
                let k = evs.iter().take_while(|e| e.ack < q.call).count();
                if evs.iter().any(|e| e.ack >= q.call && e.call <= q.ack) {
                    rep.count("observations_skipped_operation_in_flight", 1);
                    continue;
                }
                if k == 0 {
                    continue;
                }
                let st = &states[k - 1];
                let seen = match q.list.get(&tl.port) {
                    Some(true) => Seen::Healthy,
                    Some(false) => Seen::Unhealthy,
                    None => Seen::Absent,
                };
                if healthy_only {
                    // pure filter only while the anchor is healthy in the unfiltered list taken in the same round
                    let anchor_ok = q_all[tl.svc].get(qi).map(|qa| qa.list.get(&anchor_port[tl.svc]) == Some(&true)).unwrap_or(false);
                    if !anchor_ok {
                        rep.count("healthy_list_observations_skipped_protection_threshold", 1);
                        continue;
                    }
                } else {
                    let c = match seen {
                        Seen::Healthy => 'H',
                        Seen::Unhealthy => 'U',
                        Seen::Absent => 'A',
                    };
                    if !obs_string.ends_with(c) {
                        obs_string.push(c);
                    }
                }
                if st.mode == Mode::Http || st.mode == Mode::TakenOver {
                    expiry_pending = true;
                }
                let (applied, bad) = demand(st, q.call, q.ack, seen, healthy_only);
                if applied == 0 {
                    if st.mode == Mode::Http || st.mode == Mode::TakenOver {
                        in_band += 1;
                    }
                    continue;
                }
                judged += 1;
                rep.count(if healthy_only { "judged_observations_healthy_only_list" } else { "judged_observations_all_list" }, 1);
                if let Some(v) = bad {
                    if v.late && stalled {
                        rep.count("late_findings_dropped_because_run_stalled", 1);
                        continue;
                    }
                    let mode = match st.mode {
                        Mode::Http => "http-ephemeral",
                        Mode::TakenOver => "http-ephemeral-taken-over",
                        Mode::Persistent => "persistent",
                        Mode::Grpc => "grpc-owned",
                        _ => "other",
                    };
                    let view = if healthy_only { "/seen-in-healthy-only-list" } else { "" };
                    // the healthy-only list is reported on its own only when the unfiltered list is fine in the same round and
                    // in the next one (the two lists of a round are two messages: a tick can fall between them)
                    if healthy_only {
                        let mut also_unfiltered = false;
                        for qa in q_all[tl.svc].iter().skip(qi).take(2) {
                            let s2 = match qa.list.get(&tl.port) {
                                Some(true) => Seen::Healthy,
                                Some(false) => Seen::Unhealthy,
                                None => Seen::Absent,
                            };
                            let k2 = evs.iter().take_while(|e| e.ack < qa.call).count();
                            if k2 == 0 || evs.iter().any(|e| e.ack >= qa.call && e.call <= qa.ack) {
                                also_unfiltered = true; // cannot tell: do not open a separate finding
                            } else if demand(&states[k2 - 1], qa.call, qa.ack, s2, false).1.is_some() {
                                also_unfiltered = true;
                            }
                        }
                        if also_unfiltered {
                            continue;
                        }
                    }
                    let sig = format!("{}/{}/{}{}", v.symptom, mode, st.origin, view);
                    let rel = |t: i64| t - start_ms;
                    rep.violation(
                        sig,
                        json!({
                            "run_seed": seed, "timeline": tl.kind, "service": services[tl.svc].service_name.as_str(), "ip": "10.1.1.1", "port": tl.port,
                            "H_ms": H, "T_ms": T, "tick_ms": TICK, "slack_ms": SLACK,
                            "rule": v.rule, "observed": format!("{:?}", seen), "query": {"call_ms": rel(q.call), "ack_ms": rel(q.ack), "healthy_only_list": healthy_only},
                            "state": {"mode": mode, "origin": st.origin, "last_refresh_call_ms": rel(st.c), "last_refresh_ack_ms": rel(st.a),
                                      "take_over_ack_ms": if st.mode == Mode::TakenOver { json!(rel(st.tf)) } else { Value::Null }},
                            "recorded_operations": evs.iter().map(|e| json!([e.op.name(), rel(e.call), rel(e.ack)])).collect::<Vec<_>>(),
                            "probe_at_end_of_run": {"instance": probe_inst.get(&tl.port), "service": probe_svc.get(services[tl.svc].service_name.as_str()),
                                                    "current_range": probe["current_range"]},
                            "max_lag_ms_in_run": max_lag,
                        }),
                    );
                }
            }
        }
        if judged > 0 {
            rep.count("timelines_judged", 1);
        }
        if in_band > 0 && (tl.kind.starts_with("resume") || tl.kind.starts_with("replace") || tl.kind.starts_with("deregister")) {
            // a resumed/replaced timeline whose recorded gap fell between "must still be healthy" and "must have expired"
            let gaps: Vec<i64> = evs.windows(2).map(|w| w[1].call - w[0].ack).collect();
            if gaps.iter().any(|g| *g >= H - EPS && *g <= T + TICK + SLACK) {
                rep.count("timelines_with_gap_inside_ambiguity_band", 1);
            }
        }
        if judged > 0 && expiry_pending && !tl.kind.starts_with("anchor") {
            rep.shape(format!("{} obs={}", tl.kind, obs_string));
        }
        if rep.samples.len() < 3 && judged > 0 && obs_string.contains('U') && (tl.kind.starts_with("resume") || tl.kind.starts_with("flip") || tl.kind.starts_with("take-over-then-direct")) {
            let rel = |t: i64| t - start_ms;
            rep.samples.push(json!({"run_seed": seed, "timeline": tl.kind, "port": tl.port, "observed_sequence": obs_string, "judged_observations": judged,
                "recorded_operations": evs.iter().map(|e| json!([e.op.name(), rel(e.call), rel(e.ack)])).collect::<Vec<_>>(),
                "probe_at_end_of_run": probe_inst.get(&tl.port)}));
        }
    }
    Ok(RunOut { stalled })
}

pub fn run(args: &Args) -> anyhow::Result<()> {
    if let Some(names) = args.get("hash") {
        // helper for the cluster layer of lib/c13.py: get_hash_value of ServiceKey(public, DEFAULT_GROUP, name)
        let v: Vec<Value> = names.split(',').map(|n| json!([n, get_hash_value(&ServiceKey::new("public", "DEFAULT_GROUP", n))])).collect();
        println!("{}", serde_json::to_string(&v)?);
        return Ok(());
    }
    let seed = args.u64("seed", 1);
    let runs = args.u64("runs", 1);
    let n_inst = args.u64("instances", 400) as usize;
    let sys = actix_rt::System::new();
    let rep = sys.block_on(async move {
        let mut rep = Report::default();
        let mut stalled = 0;
        for k in 0..runs {
            let o = one_run(seed * 100 + k, n_inst, &mut rep).await?;
            if o.stalled {
                stalled += 1;
            }
        }
        if stalled == runs {
            rep.inconclusive.push("every run of this shard saw a scheduling stall > 400 ms".to_string());
        }
        Ok::<Report, anyhow::Error>(rep)
    })?;
    rep.write(args)
}
