//! C13 rig (see DESIGN.md section 3/C13) - filled in by the C13 check.
use crate::util::Args;

pub fn run(_args: &Args) -> anyhow::Result<()> {
    anyhow::bail!("not implemented")
}
