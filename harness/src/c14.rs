//! C14 rig (see DESIGN.md section 3/C14): distro ownership versus routing.
//!
//! One real `InnerNodeManage` actor (+ `NodeManage` wrapper, a real `RaftClusterRequestSender` whose peers are
//! unreachable loopback addresses and a real `NamingActor` that receives the range refreshes) per simulated
//! (n, D, local) view, wired through a `bean_factory::BeanFactory` the way `starter::config_factory` does it.
//! All views of all cluster sizes 1..5 run concurrently in this process; alive peers are kept alive with
//! `ActiveNode(id)` once per second, the members of the dead set D are starved until the genuine 15 s liveness
//! rule (checked on the actor's own 3 s tick) marks them invalid. Then, per view, for a sweep of service keys
//! covering every residue of `get_hash_value` modulo 60: `QueryOwnerRange` (first element) + `ProcessRange::is_range`
//! = "do I own it?", `NodeManage::route_addr` = "where would an HTTP write go?".
use crate::util::{rng, Args, Report};
use actix::prelude::*;
use bean_factory::{BeanDefinition, BeanFactory};
use rand::Rng;
use rnacos::common::hash_utils::get_hash_value;
use rnacos::common::AppSysConfig;
use rnacos::naming::cluster::model::{NamingRouteAddr, ProcessRange};
use rnacos::naming::cluster::node_manage::{
    InnerNodeManage, NodeManage, NodeManageRequest, NodeManageResponse, NodeStatus,
};
use rnacos::naming::cluster::route::NamingRoute;
use rnacos::naming::core::{NamingActor, NamingCmd, NamingResult};
use rnacos::naming::model::{Instance, ServiceKey};
use rnacos::naming::verif_hooks::VerifNamingProbe;
use rnacos::raft::network::factory::{RaftClusterRequestSender, RaftConnectionFactory};
use serde_json::{json, Value};
use std::cell::RefCell;
use std::collections::{BTreeMap, BTreeSet, HashMap};
use std::rc::Rc;
use std::sync::Arc;
use std::time::{Duration, Instant};

const MAX_N: usize = 5;
const LCM: usize = 60;
const BASE_IDS: [u64; 5] = [1, 2, 3, 4, 5];
/// second id family: same sizes, ids that are not their own position + 1 (an id/position mix-up shows here only)
const SPARSE_IDS: [u64; 5] = [3, 7, 20, 21, 50];

fn addr_of(id: u64) -> String {
    // nothing listens on low loopback ports in the sandbox: every peer is unreachable (connection refused)
    format!("127.0.0.1:{}", 600 + id)
}

struct View {
    family: &'static str,
    ids: Vec<u64>,
    local: u64,
    /// nodes the harness currently does NOT keep alive
    starved: Rc<RefCell<BTreeSet<u64>>>,
    inner: Addr<InnerNodeManage>,
    nm: Arc<NodeManage>,
    naming: Addr<NamingActor>,
    route: NamingRoute,
    /// set once the view's statuses were seen to equal the wanted dead set
    settled_at: Option<Instant>,
    /// description of what was done to this view before the current phase
    history: Vec<String>,
}

impl View {
    fn n(&self) -> usize {
        self.ids.len()
    }
    fn dead(&self) -> BTreeSet<u64> {
        self.starved.borrow().clone()
    }
    fn group_key(&self) -> (String, usize, Vec<u64>) {
        (self.family.to_string(), self.n(), self.dead().into_iter().collect())
    }
}

async fn make_view(family: &'static str, ids: &[u64], dead: &BTreeSet<u64>, local: u64) -> anyhow::Result<View> {
    let sys_config = Arc::new(AppSysConfig {
        raft_node_id: local,
        raft_node_addr: addr_of(local),
        naming_health_timeout: 15_000,
        naming_instance_timeout: 30_000,
        ..Default::default()
    });
    let factory = BeanFactory::new();
    factory.register(BeanDefinition::from_obj(sys_config.clone()));
    let naming = NamingActor::new().start();
    factory.register(BeanDefinition::actor_with_inject_from_obj(naming.clone()));
    let conn_factory = RaftConnectionFactory::new(60).start();
    factory.register(BeanDefinition::actor_from_obj(conn_factory.clone()));
    let sender = Arc::new(RaftClusterRequestSender::new(conn_factory, sys_config.clone()));
    factory.register(BeanDefinition::from_obj(sender.clone()));
    let inner = InnerNodeManage::new(local).start();
    factory.register(BeanDefinition::actor_with_inject_from_obj(inner.clone()));
    let nm = Arc::new(NodeManage::new(inner.clone()));
    factory.register(BeanDefinition::from_obj(nm.clone()));
    let route = NamingRoute::new(local, naming.clone(), nm.clone(), sender.clone());
    let _data = factory.init().await;
    let nodes: Vec<(u64, Arc<String>)> = ids.iter().map(|i| (*i, Arc::new(addr_of(*i)))).collect();
    inner
        .send(NodeManageRequest::UpdateNodes(nodes))
        .await?
        .map_err(|e| anyhow::anyhow!("UpdateNodes: {}", e))?;
    Ok(View {
        family,
        ids: ids.to_vec(),
        local,
        starved: Rc::new(RefCell::new(dead.clone())),
        inner,
        nm,
        naming,
        route,
        settled_at: None,
        history: vec![],
    })
}

/// what one view says at one moment
#[derive(Clone, Debug)]
struct Snapshot {
    invalid: BTreeSet<u64>,
    range: ProcessRange,
    ranges_len: usize,
    naming_range: Option<(usize, usize)>,
}

async fn statuses(v: &View) -> anyhow::Result<BTreeSet<u64>> {
    match v.inner.send(NodeManageRequest::GetAllNodes).await?? {
        NodeManageResponse::AllNodes(nodes) => {
            Ok(nodes.iter().filter(|n| n.status != NodeStatus::Valid).map(|n| n.id).collect())
        }
        _ => anyhow::bail!("unexpected answer to GetAllNodes"),
    }
}

async fn snapshot(v: &View) -> anyhow::Result<Snapshot> {
    let invalid = statuses(v).await?;
    let ranges = match v.inner.send(NodeManageRequest::QueryOwnerRange(ProcessRange::new(0, 1))).await?? {
        NodeManageResponse::OwnerRange(r) => r,
        _ => anyhow::bail!("unexpected answer to QueryOwnerRange"),
    };
    let range = ranges.first().cloned().ok_or_else(|| anyhow::anyhow!("QueryOwnerRange returned no range"))?;
    let probe = v.naming.send(VerifNamingProbe).await?;
    let naming_range = probe["current_range"]
        .as_array()
        .map(|a| (a[0].as_u64().unwrap_or(0) as usize, a[1].as_u64().unwrap_or(0) as usize));
    Ok(Snapshot { invalid, range, ranges_len: ranges.len(), naming_range })
}

/// wait until every view reports exactly its starved set as invalid (bounded); returns the number of unsettled views
async fn wait_settled(views: &mut [View], min_wait: Duration, bound: Duration) -> usize {
    let t0 = Instant::now();
    for v in views.iter_mut() {
        v.settled_at = None;
    }
    tokio::time::sleep(min_wait).await;
    loop {
        let mut open = 0;
        for v in views.iter_mut() {
            if v.settled_at.is_some() {
                continue;
            }
            match statuses(v).await {
                Ok(inv) if inv == v.dead() => v.settled_at = Some(Instant::now()),
                _ => open += 1,
            }
        }
        if open == 0 || t0.elapsed() > bound {
            return open;
        }
        tokio::time::sleep(Duration::from_millis(500)).await;
    }
}

fn cause_class(ids: &[u64], dead: &BTreeSet<u64>) -> &'static str {
    if dead.is_empty() {
        return "all-nodes-alive";
    }
    let min_dead = *dead.iter().next().unwrap();
    let max_alive = ids.iter().filter(|i| !dead.contains(i)).max().copied().unwrap_or(0);
    if min_dead < max_alive {
        "dead-node-id-below-live-node"
    } else {
        "dead-nodes-only-above-live-nodes"
    }
}

struct Obs {
    local: u64,
    snap: Snapshot,
    /// per key index: does the local range contain it / where does route_addr point (node id, 0 = unknown address)
    owns: Vec<bool>,
    route: Vec<u64>,
    route_raw: Vec<String>,
    history: Vec<String>,
}

async fn observe(v: &View, keys: &[(ServiceKey, usize)]) -> anyhow::Result<Obs> {
    let snap = snapshot(v).await?;
    let mut owns = Vec::with_capacity(keys.len());
    let mut route = Vec::with_capacity(keys.len());
    let mut route_raw = Vec::with_capacity(keys.len());
    let by_addr: HashMap<String, u64> = v.ids.iter().map(|i| (addr_of(*i), *i)).collect();
    for (key, h) in keys {
        owns.push(snap.range.is_range(*h));
        match v.nm.route_addr(key).await {
            NamingRouteAddr::Local(i) => {
                route.push(v.local);
                route_raw.push(format!("Local({})", i));
            }
            NamingRouteAddr::Remote(i, addr) => {
                route.push(by_addr.get(addr.as_str()).copied().unwrap_or(0));
                route_raw.push(format!("Remote({},{})", i, addr));
            }
        }
    }
    Ok(Obs { local: v.local, snap, owns, route, route_raw, history: v.history.clone() })
}

/// the oracle for one (family, n, D): `obs` holds one observation per alive local view
fn judge(
    phase: &str,
    family: &str,
    ids: &[u64],
    dead: &BTreeSet<u64>,
    obs: &[&Obs],
    keys: &[(ServiceKey, usize)],
    fresh: Option<&Vec<Vec<(bool, u64)>>>,
    rep: &mut Report,
) -> Vec<Vec<(bool, u64)>> {
    let cause = cause_class(ids, dead);
    let alive: Vec<u64> = ids.iter().filter(|i| !dead.contains(i)).copied().collect();
    let mut table: Vec<Vec<(bool, u64)>> = vec![];
    let view_desc = |k: usize| -> Value {
        json!({
            "phase": phase, "family": family, "node_ids": ids, "dead": dead, "alive": alive,
            "key": {"namespace": keys[k].0.namespace_id.as_str(), "group": keys[k].0.group_name.as_str(), "service": keys[k].0.service_name.as_str()},
            "hash_mod_60": keys[k].1 % LCM, "hash_mod_live_count": keys[k].1 % alive.len().max(1),
            "views": obs.iter().map(|o| json!({
                "local": o.local, "current_range": [o.snap.range.index, o.snap.range.len], "owns_key": o.owns[k],
                "route_addr": o.route_raw[k], "route_target_node": o.route[k], "history": o.history,
            })).collect::<Vec<_>>(),
        })
    };
    for k in 0..keys.len() {
        rep.evaluations += obs.len() as u64;
        let owners: Vec<u64> = obs.iter().filter(|o| o.owns[k]).map(|o| o.local).collect();
        let row: Vec<(bool, u64)> = obs.iter().map(|o| (o.owns[k], o.route[k])).collect();
        // a violation seen after a recovery is the same finding as on a fresh view only if the fresh view with the same
        // (n, D) behaves identically; otherwise the state depends on the history and that is a different cause
        let hist = match fresh {
            Some(f) if f.get(k) != Some(&row) => "/differs-from-fresh-view-with-same-liveness",
            _ => "",
        };
        let mut symptoms: Vec<&str> = vec![];
        if owners.is_empty() {
            symptoms.push("no-owner");
        } else if owners.len() > 1 {
            symptoms.push("two-owners");
        }
        let targets: BTreeSet<u64> = obs.iter().map(|o| o.route[k]).collect();
        if targets.iter().any(|t| !alive.contains(t)) {
            symptoms.push("route-to-node-not-alive");
        } else if targets.len() > 1 {
            symptoms.push("live-nodes-route-to-different-nodes");
        }
        if owners.len() == 1 && targets.iter().any(|t| *t != owners[0]) && targets.iter().all(|t| alive.contains(t)) && targets.len() == 1 {
            symptoms.push("route-differs-from-owner");
        }
        for s in symptoms {
            rep.violation(format!("{}/{}{}", s, cause, hist), view_desc(k));
        }
        table.push(row);
    }
    table
}

async fn evaluate(
    phase: &str,
    views: &[View],
    keys: &[(ServiceKey, usize)],
    fresh: Option<&BTreeMap<(String, usize, Vec<u64>), Vec<Vec<(bool, u64)>>>>,
    rep: &mut Report,
) -> anyhow::Result<BTreeMap<(String, usize, Vec<u64>), Vec<Vec<(bool, u64)>>>> {
    let mut groups: BTreeMap<(String, usize, Vec<u64>), Vec<Obs>> = BTreeMap::new();
    for v in views {
        if v.settled_at.is_none() {
            rep.count(&format!("{}_views_not_settled", phase), 1);
            continue;
        }
        let o = observe(v, keys).await?;
        if o.snap.invalid != v.dead() {
            // liveness moved between the settle check and the observation: not a view this oracle speaks about
            rep.count(&format!("{}_views_moved_during_observation", phase), 1);
            continue;
        }
        rep.count(&format!("{}_views_observed", phase), 1);
        groups.entry(v.group_key()).or_default().push(o);
    }
    let mut tables = BTreeMap::new();
    // smallest clusters first so that the first witness kept per signature is a minimal one
    let mut order: Vec<&(String, usize, Vec<u64>)> = groups.keys().collect();
    order.sort_by_key(|g| (g.0 != "ids-1..n", g.1, g.2.len(), g.2.clone()));
    for g in order {
        let obs = &groups[g];
        let (family, n, dead_v) = (g.0.as_str(), g.1, &g.2);
        let ids: Vec<u64> = if family == "ids-1..n" { BASE_IDS[..n].to_vec() } else { SPARSE_IDS[..n].to_vec() };
        let dead: BTreeSet<u64> = dead_v.iter().copied().collect();
        let alive_n = n - dead.len();
        // after recoveries several histories can end in the same (n, D', local): one observation per local is judged as
        // a group, every single one is additionally compared with the fresh view by the caller
        let mut by_local: BTreeMap<u64, &Obs> = BTreeMap::new();
        for o in obs.iter() {
            by_local.entry(o.local).or_insert(o);
        }
        if by_local.len() != alive_n {
            rep.count(&format!("{}_groups_incomplete", phase), 1);
            continue;
        }
        let sorted: Vec<&Obs> = by_local.values().copied().collect();
        let f = fresh.and_then(|m| m.get(g));
        let table = judge(phase, family, &ids, &dead, &sorted, keys, f, rep);
        rep.count(&format!("{}_groups_judged", phase), 1);
        if !dead.is_empty() {
            rep.shape(format!("{} {} n={} dead={:?}", phase, family, n, dead_v));
        } else {
            rep.count(&format!("{}_groups_all_alive", phase), 1);
        }
        // the NamingActor decides heartbeat supervision / take-over with the range it was last sent
        for o in &sorted {
            rep.count("naming_range_compared", 1);
            match o.snap.naming_range {
                Some((i, l)) if (i, l) == (o.snap.range.index, o.snap.range.len) => {}
                None if n == 1 => rep.count("naming_range_none_single_node", 1),
                other => {
                    let what = if dead.is_empty() && o.history.is_empty() { "all-nodes-alive" } else { "after-liveness-change-without-membership-change" };
                    rep.violation(
                        format!("naming-actor-range-differs-from-node-manage-range/{}", what),
                        json!({"phase": phase, "family": family, "node_ids": ids, "dead": dead, "local": o.local, "history": o.history,
                               "node_manage_current_range": [o.snap.range.index, o.snap.range.len],
                               "naming_actor_current_range": other.map(|(i, l)| vec![i, l]),
                               "effect": "NamingActor::update_instance (at_process_range) and refresh_process_range (re-arming taken-over instances) keep using the stale range"}),
                    );
                }
            }
        }
        if rep.samples.len() < 6 && (n == 3 || n == 5) && dead.len() == 1 {
            rep.samples.push(json!({
                "phase": phase, "family": family, "node_ids": ids, "dead": dead,
                "views": sorted.iter().map(|o| json!({"local": o.local, "current_range": [o.snap.range.index, o.snap.range.len], "history_ranges": o.snap.ranges_len - 1,
                    "naming_actor_range": o.snap.naming_range.map(|(i, l)| vec![i, l]),
                    "owned_residues_mod_live": (0..alive_n).filter(|r| o.snap.range.is_range(*r)).collect::<Vec<_>>(),
                    "route_of_first_keys": o.route_raw.iter().take(4).collect::<Vec<_>>()})).collect::<Vec<_>>(),
            }));
        }
        tables.insert(g.clone(), table);
    }
    Ok(tables)
}

fn subsets(ids: &[u64]) -> Vec<BTreeSet<u64>> {
    let n = ids.len();
    let mut out = vec![];
    for mask in 0u32..(1 << n) {
        let d: BTreeSet<u64> = (0..n).filter(|b| mask & (1 << b) != 0).map(|b| ids[b]).collect();
        if d.len() < n {
            out.push(d);
        }
    }
    out.sort_by_key(|d| (d.len(), d.iter().copied().collect::<Vec<_>>()));
    out
}

fn make_keys(seed: u64) -> Vec<(ServiceKey, usize)> {
    let mut r = rng(seed);
    let mut keys = vec![];
    let mut seen = BTreeSet::new();
    let groups = ["DEFAULT_GROUP", "g1", "pay"];
    let tenants = ["public", "dev", ""];
    let mut i = 0;
    while (seen.len() < LCM || keys.len() < 90) && i < 100_000 {
        i += 1;
        let key = ServiceKey::new(tenants[r.gen_range(0..3)], groups[r.gen_range(0..3)], &format!("svc-{}-{}", seed % 1000, r.gen_range(0..1_000_000)));
        let h = get_hash_value(&key) as usize;
        // keep the sweep small: prefer keys that add a new residue, take a few extra ones at random
        if seen.insert(h % LCM) || (keys.len() < 90 && r.gen_range(0..4) == 0) {
            keys.push((key, h));
        }
    }
    keys
}

/// what a single view must satisfy whatever its history: the NamingActor works with the node manager's range, and the node
/// routes a key to itself exactly when it considers itself the owner
fn judge_local(phase: &str, how: &str, v: &View, o: &Obs, keys: &[(ServiceKey, usize)], rep: &mut Report) -> bool {
    let mut ok = true;
    rep.count("naming_range_compared", 1);
    match o.snap.naming_range {
        Some((i, l)) if (i, l) == (o.snap.range.index, o.snap.range.len) => {}
        None if v.n() == 1 => {}
        other => {
            ok = false;
            rep.violation(
                format!("naming-actor-range-differs-from-node-manage-range/{}", how),
                json!({"phase": phase, "family": v.family, "node_ids": v.ids, "dead": v.dead(), "local": v.local, "history": v.history,
                       "node_manage_current_range": [o.snap.range.index, o.snap.range.len], "naming_actor_current_range": other.map(|(i, l)| vec![i, l])}),
            );
        }
    }
    for k in 0..keys.len() {
        rep.evaluations += 1;
        if o.owns[k] != (o.route[k] == v.local) {
            ok = false;
            rep.violation(
                format!("route-differs-from-owner/{}", how),
                json!({"phase": phase, "family": v.family, "node_ids": v.ids, "dead": v.dead(), "local": v.local, "history": v.history,
                       "key_hash_mod_60": keys[k].1 % LCM, "owns_key": o.owns[k], "route_addr": o.route_raw[k], "route_target_node": o.route[k],
                       "current_range": [o.snap.range.index, o.snap.range.len]}),
            );
            break;
        }
    }
    ok
}

fn compare_with_fresh(
    phase: &str,
    how: &str,
    v: &View,
    o: &Obs,
    keys: &[(ServiceKey, usize)],
    fresh: &BTreeMap<(String, usize, Vec<u64>), Vec<Vec<(bool, u64)>>>,
    rep: &mut Report,
) {
    let g = v.group_key();
    if let Some(ft) = fresh.get(&g) {
        let alive: Vec<u64> = v.ids.iter().copied().filter(|x| !v.dead().contains(x)).collect();
        let pos = match alive.iter().position(|x| *x == v.local) {
            Some(p) => p,
            None => return,
        };
        rep.count(&format!("{}_views_compared_with_fresh_view", phase), 1);
        for k in 0..keys.len() {
            rep.evaluations += 1;
            if ft[k].get(pos) != Some(&(o.owns[k], o.route[k])) {
                rep.violation(
                    format!("ownership-or-route-depends-on-history/{}", how),
                    json!({"phase": phase, "family": v.family, "node_ids": v.ids, "local": v.local, "dead_now": v.dead(), "history": v.history,
                           "key_hash_mod_60": keys[k].1 % LCM, "fresh_view": ft[k].get(pos).map(|x| json!({"owns": x.0, "route_target": x.1})),
                           "now": {"owns": o.owns[k], "route_target": o.route[k], "route_addr": o.route_raw[k], "current_range": [o.snap.range.index, o.snap.range.len]}}),
                );
                return;
            }
        }
    }
}

/// a write for a key whose owner is another live-but-unreachable node must fail; it must never be stored on the non-owner
async fn route_failure_phase(views: &[View], keys: &[(ServiceKey, usize)], rep: &mut Report) -> anyhow::Result<()> {
    let mut done = 0;
    for (vi, v) in views.iter().enumerate() {
        if v.settled_at.is_none() || v.n() - v.dead().len() < 2 || vi % 3 != 0 {
            continue;
        }
        let mut tried = 0;
        for (key, _h) in keys.iter() {
            if tried >= 2 {
                break;
            }
            if let NamingRouteAddr::Remote(_, _) = v.nm.route_addr(key).await {
                tried += 1;
                let mut ins = Instance::new(format!("10.14.{}.{}", vi % 250, tried), 8000 + tried as u32);
                ins.namespace_id = key.namespace_id.clone();
                ins.group_name = key.group_name.clone();
                ins.service_name = key.service_name.clone();
                ins.generate_key();
                let r = tokio::time::timeout(Duration::from_secs(5), v.route.update_instance(ins.clone(), None)).await;
                rep.evaluations += 1;
                let answered_ok = matches!(r, Ok(Ok(())));
                let stored = match v.naming.send(NamingCmd::QueryAllInstanceList(key.clone())).await {
                    Ok(Ok(NamingResult::InstanceList(l))) => l.iter().any(|x| x.ip == ins.ip && x.port == ins.port),
                    _ => false,
                };
                rep.count("route_failure_probes", 1);
                if answered_ok || stored {
                    rep.violation(
                        format!("write-for-unreachable-owner/{}", if stored { "stored-on-non-owner" } else { "acknowledged" }),
                        json!({"family": v.family, "node_ids": v.ids, "dead": v.dead(), "local": v.local, "service": key.service_name.as_str(),
                               "answer_ok": answered_ok, "stored_locally": stored, "timed_out": r.is_err()}),
                    );
                    return Ok(());
                }
            }
        }
        if tried > 0 {
            done += 1;
        }
    }
    if done > 0 {
        rep.shape("route-failure/refused-and-not-stored".to_string());
    }
    Ok(())
}

/// membership changes on views that already have a liveness history: remove the largest / the smallest other member, or add one
async fn membership_phase(
    views: &mut [View],
    keys: &[(ServiceKey, usize)],
    fresh: &BTreeMap<(String, usize, Vec<u64>), Vec<Vec<(bool, u64)>>>,
    rep: &mut Report,
) -> anyhow::Result<()> {
    let mut kinds: Vec<(usize, &'static str)> = vec![];
    for (i, v) in views.iter_mut().enumerate() {
        if v.settled_at.is_none() {
            continue;
        }
        let others: Vec<u64> = v.ids.iter().copied().filter(|x| *x != v.local).collect();
        let kind = ["shrink-largest", "shrink-smallest", "grow"][i % 3];
        let new_ids: Vec<u64> = match kind {
            "shrink-largest" if !others.is_empty() => {
                let x = *others.iter().max().unwrap();
                v.starved.borrow_mut().remove(&x);
                v.ids.iter().copied().filter(|y| *y != x).collect()
            }
            "shrink-smallest" if !others.is_empty() => {
                let x = *others.iter().min().unwrap();
                v.starved.borrow_mut().remove(&x);
                v.ids.iter().copied().filter(|y| *y != x).collect()
            }
            "grow" => {
                let mut n = v.ids.clone();
                n.push(v.ids.iter().max().unwrap() + 7);
                n
            }
            _ => continue,
        };
        let nodes: Vec<(u64, Arc<String>)> = new_ids.iter().map(|i| (*i, Arc::new(addr_of(*i)))).collect();
        v.inner.send(NodeManageRequest::UpdateNodes(nodes)).await?.map_err(|e| anyhow::anyhow!("UpdateNodes: {}", e))?;
        v.history.push(format!("membership {:?} -> {:?} ({})", v.ids, new_ids, kind));
        v.ids = new_ids;
        kinds.push((i, kind));
    }
    // one liveness tick (3 s) + slack: whatever is recomputed lazily has been recomputed
    tokio::time::sleep(Duration::from_millis(4000)).await;
    for (i, kind) in kinds {
        let v = &views[i];
        let o = observe(v, keys).await?;
        if o.snap.invalid != v.dead() {
            rep.count("membership_views_moved_during_observation", 1);
            continue;
        }
        rep.count("membership_views_observed", 1);
        let how = format!("after-membership-{}", kind);
        if judge_local("membership", &how, v, &o, keys, rep) {
            rep.shape(format!("membership {} {} n={} dead={}", kind, v.family, v.n(), v.dead().len()));
        }
        // a prefix of the id family is one of the enumerated fresh views
        let fam_ids: &[u64] = if v.family == "ids-1..n" { &BASE_IDS } else { &SPARSE_IDS };
        if v.ids.len() <= MAX_N && v.ids[..] == fam_ids[..v.ids.len()] {
            compare_with_fresh("membership", &how, v, &o, keys, fresh, rep);
        }
    }
    Ok(())
}

async fn run_async(args: &Args) -> anyhow::Result<Report> {
    let seed = args.u64("seed", 1);
    let thorough = args.has("recover");
    let mut rep = Report::default();
    let keys = make_keys(seed);
    let residues: BTreeSet<usize> = keys.iter().map(|k| k.1 % LCM).collect();
    rep.count("keys", keys.len() as u64);
    rep.count("residues_mod_60_covered", residues.len() as u64);
    if residues.len() < LCM {
        rep.inconclusive.push(format!("only {} of 60 residues covered by the key sweep", residues.len()));
    }
    // ---- phase 1: every (n, D, local) view, both id families, all waiting for the liveness timer concurrently
    let t0 = Instant::now();
    let mut views: Vec<View> = vec![];
    for (family, all) in [("ids-1..n", &BASE_IDS), ("ids-sparse", &SPARSE_IDS)] {
        for n in 1..=MAX_N {
            let ids = &all[..n];
            for dead in subsets(ids) {
                for local in ids.iter().filter(|i| !dead.contains(i)) {
                    views.push(make_view(family, ids, &dead, *local).await?);
                    *rep.counters.entry(format!("views_{}", family)).or_insert(0) += 1;
                }
            }
        }
    }
    rep.count("views_created_ms", t0.elapsed().as_millis() as u64);
    // keep-alive: what a live peer's Ping / sync traffic does on the receiving node (handle_naming_route -> active_node)
    let ka: Vec<(Addr<InnerNodeManage>, Vec<u64>, u64, Rc<RefCell<BTreeSet<u64>>>)> =
        views.iter().map(|v| (v.inner.clone(), v.ids.clone(), v.local, v.starved.clone())).collect();
    let stop = Rc::new(RefCell::new(false));
    let stop2 = stop.clone();
    actix_rt::spawn(async move {
        while !*stop2.borrow() {
            for (inner, ids, local, starved) in &ka {
                let s = starved.borrow().clone();
                for id in ids {
                    if id != local && !s.contains(id) {
                        inner.do_send(NodeManageRequest::ActiveNode(*id));
                    }
                }
            }
            tokio::time::sleep(Duration::from_millis(1000)).await;
        }
    });
    let open = wait_settled(&mut views, Duration::from_millis(15_500), Duration::from_secs(32)).await;
    rep.count("phase1_settle_ms", t0.elapsed().as_millis() as u64);
    if open > 0 {
        rep.inconclusive.push(format!("{} views did not reach their liveness pattern within 32 s", open));
    }
    // positive control of the starvation itself: a starved node really was Valid first and became Invalid by the timer
    let fresh = evaluate("fresh", &views, &keys, None, &mut rep).await?;
    route_failure_phase(&views, &keys, &mut rep).await?;

    // ---- swap transition (every third view with a dead node and another live peer): a dead node X answers again in the very
    // status-check window in which a live peer Y runs into the 15 s rule, so the NUMBER of live nodes is the same before and after
    // while their positions are not. Y's last sign of life is sent at s, X's first one at s + 14.9 s: the check that marks Y
    // (first tick after s + 15 s) is the first one after X's return unless a tick falls into [s + 14.9, s + 15] (3 % of phases).
    let mut swapped: BTreeSet<usize> = BTreeSet::new();
    {
        let mut plan: Vec<(usize, u64, u64)> = vec![];
        for (i, v) in views.iter_mut().enumerate() {
            let dead = v.dead();
            if i % 3 != 1 || dead.is_empty() || v.settled_at.is_none() {
                continue;
            }
            let live_peers: Vec<u64> = v.ids.iter().copied().filter(|x| *x != v.local && !dead.contains(x)).collect();
            if live_peers.is_empty() {
                continue;
            }
            let x = *dead.iter().next().unwrap();
            let y = live_peers[i % live_peers.len()];
            v.inner.do_send(NodeManageRequest::ActiveNode(y));
            v.starved.borrow_mut().insert(y);
            plan.push((i, x, y));
        }
        if !plan.is_empty() {
            tokio::time::sleep(Duration::from_millis(14_900)).await;
            for (i, x, y) in &plan {
                let v = &mut views[*i];
                let before = v.dead();
                v.starved.borrow_mut().remove(x);
                v.inner.do_send(NodeManageRequest::ActiveNode(*x));
                v.history.push(format!("dead={:?}; {} answered again in the status-check window in which {} timed out", before, x, y));
                swapped.insert(*i);
            }
            tokio::time::sleep(Duration::from_millis(4_600)).await;
            for (i, _x, _y) in &plan {
                let v = &views[*i];
                let o = observe(v, &keys).await?;
                if o.snap.invalid != v.dead() {
                    rep.count("swapped_views_not_in_the_expected_pattern", 1);
                    continue;
                }
                rep.count("swapped_views_observed", 1);
                if judge_local("swapped", "after-one-node-returned-while-another-timed-out", v, &o, &keys, &mut rep) {
                    rep.shape(format!("swapped {} n={} dead={:?}", v.family, v.n(), v.dead()));
                }
                compare_with_fresh("swapped", "after-one-node-returned-while-another-timed-out", v, &o, &keys, &fresh, &mut rep);
            }
        }
    }

    if !thorough {
        // ---- revive-only transition: the smallest dead node of every view comes back (its pings arrive again); after the next
        // tick the view must be indistinguishable from the fresh view with the same liveness pattern
        let mut moved: Vec<usize> = vec![];
        for (i, v) in views.iter_mut().enumerate() {
            let dead = v.dead();
            if dead.is_empty() || v.settled_at.is_none() || swapped.contains(&i) {
                continue;
            }
            let revive = *dead.iter().next().unwrap();
            v.starved.borrow_mut().remove(&revive);
            v.inner.do_send(NodeManageRequest::ActiveNode(revive));
            v.history.push(format!("dead={:?}; revived {}", dead, revive));
            if i % 2 == 0 {
                // the periodic membership refresh of the real node (unchanged member list, every 20 s) may be the first thing that
                // runs after the peer's first sign of life, before the next status check
                let nodes: Vec<(u64, Arc<String>)> = v.ids.iter().map(|x| (*x, Arc::new(addr_of(*x)))).collect();
                v.inner.do_send(NodeManageRequest::UpdateNodes(nodes));
                v.history.push("member list re-announced unchanged before the next status check".to_string());
                rep.count("revived_views_with_membership_refresh_first", 1);
            }
            moved.push(i);
        }
        tokio::time::sleep(Duration::from_millis(4000)).await;
        for i in &moved {
            let v = &views[*i];
            let o = observe(v, &keys).await?;
            if o.snap.invalid != v.dead() {
                rep.count("revived_views_moved_during_observation", 1);
                continue;
            }
            rep.count("revived_views_observed", 1);
            if judge_local("revived", "after-recovery-of-a-node", v, &o, &keys, &mut rep) {
                rep.shape(format!("revived {} n={} dead={:?}", v.family, v.n(), v.dead()));
            }
            compare_with_fresh("revived", "after-recovery-of-a-node", v, &o, &keys, &fresh, &mut rep);
        }
        membership_phase(&mut views, &keys, &fresh, &mut rep).await?;
    }

    if thorough {
        // ---- phase 2: recoveries. In every view with a dead node: revive the smallest dead node, let the range follow
        // (next 3 s tick), then starve another live peer (if there is one). The resulting liveness pattern D' is again one
        // of the enumerated ones, so the fresh view with the same (n, D') is the reference for history dependence.
        let mut r = rng(seed ^ 0x5eed);
        let mut moved: Vec<usize> = vec![];
        for (i, v) in views.iter_mut().enumerate() {
            let dead = v.dead();
            if dead.is_empty() || v.settled_at.is_none() {
                continue;
            }
            let revive = *dead.iter().next().unwrap();
            v.starved.borrow_mut().remove(&revive);
            v.inner.do_send(NodeManageRequest::ActiveNode(revive));
            v.history.push(format!("dead={:?}; revived {}", dead, revive));
            if i % 2 == 0 {
                // the periodic membership refresh of the real node (unchanged member list, every 20 s) may be the first thing that
                // runs after the peer's first sign of life, before the next status check
                let nodes: Vec<(u64, Arc<String>)> = v.ids.iter().map(|x| (*x, Arc::new(addr_of(*x)))).collect();
                v.inner.do_send(NodeManageRequest::UpdateNodes(nodes));
                v.history.push("member list re-announced unchanged before the next status check".to_string());
                rep.count("revived_views_with_membership_refresh_first", 1);
            }
            moved.push(i);
        }
        tokio::time::sleep(Duration::from_millis(4000)).await;
        for i in &moved {
            let v = &views[*i];
            let o = observe(v, &keys).await?;
            if o.snap.invalid != v.dead() {
                rep.count("revived_views_moved_during_observation", 1);
                continue;
            }
            rep.count("revived_views_observed", 1);
            if judge_local("revived", "after-recovery-of-a-node", v, &o, &keys, &mut rep) {
                rep.shape(format!("revived {} n={} dead={:?}", v.family, v.n(), v.dead()));
            }
            compare_with_fresh("revived", "after-recovery-of-a-node", v, &o, &keys, &fresh, &mut rep);
        }
        for i in &moved {
            let v = &mut views[*i];
            let dead = v.dead();
            let cands: Vec<u64> = v.ids.iter().copied().filter(|x| *x != v.local && !dead.contains(x)).collect();
            // seeded choice among all live peers (may be the node that was just revived: "flapping")
            if !cands.is_empty() {
                let s = cands[r.gen_range(0..cands.len())];
                v.starved.borrow_mut().insert(s);
                v.history.push(format!("then starved {}", s));
            }
        }
        let mut sub: Vec<View> = vec![];
        let mut rest: Vec<View> = vec![];
        for (i, v) in views.into_iter().enumerate() {
            if moved.contains(&i) {
                sub.push(v)
            } else {
                rest.push(v)
            }
        }
        let t1 = Instant::now();
        let open = wait_settled(&mut sub, Duration::from_millis(15_500), Duration::from_secs(32)).await;
        rep.count("phase2_settle_ms", t1.elapsed().as_millis() as u64);
        if open > 0 {
            rep.inconclusive.push(format!("{} recovered views did not reach their liveness pattern within 32 s", open));
        }
        // let one more tick pass so that a range change triggered by the last status change has been applied
        tokio::time::sleep(Duration::from_millis(3500)).await;
        let mut by_group: BTreeMap<(String, usize, Vec<u64>), usize> = BTreeMap::new();
        for v in &sub {
            *by_group.entry(v.group_key()).or_insert(0) += 1;
        }
        rep.count("phase2_views", sub.len() as u64);
        // groups after recovery are judged per (n, D') only when all alive locals of that pattern are present; the rest
        // is still compared view-by-view against the fresh view (ownership + routing must be a function of the liveness view)
        for v in &sub {
            if v.settled_at.is_none() {
                continue;
            }
            let o = observe(v, &keys).await?;
            if o.snap.invalid != v.dead() {
                rep.count("recovered_views_moved_during_observation", 1);
                continue;
            }
            rep.count("recovered_views_compared_with_fresh_view", 1);
            let g = v.group_key();
            let cause = cause_class(&v.ids, &v.dead());
            if let Some(ft) = fresh.get(&g) {
                let alive: Vec<u64> = v.ids.iter().copied().filter(|x| !v.dead().contains(x)).collect();
                let pos = alive.iter().position(|x| *x == v.local).unwrap();
                let mut diff = None;
                for k in 0..keys.len() {
                    rep.evaluations += 1;
                    if ft[k][pos] != (o.owns[k], o.route[k]) {
                        diff = Some(k);
                        break;
                    }
                }
                rep.shape(format!("recovered {} n={} dead={:?}", v.family, v.n(), g.2));
                if let Some(k) = diff {
                    rep.violation(
                        format!("ownership-or-route-depends-on-history/{}", cause),
                        json!({"family": v.family, "node_ids": v.ids, "local": v.local, "dead_now": v.dead(), "history": v.history,
                               "key_hash_mod_60": keys[k].1 % LCM, "fresh_view": {"owns": ft[k][pos].0, "route_target": ft[k][pos].1},
                               "after_recovery": {"owns": o.owns[k], "route_target": o.route[k], "route_addr": o.route_raw[k], "current_range": [o.snap.range.index, o.snap.range.len]}}),
                    );
                }
            }
            // the stale-range observation, on views whose membership never changed but whose liveness changed twice
            rep.count("naming_range_compared", 1);
            match o.snap.naming_range {
                Some((i, l)) if (i, l) == (o.snap.range.index, o.snap.range.len) => {}
                None if v.n() == 1 => {}
                other => rep.violation(
                    "naming-actor-range-differs-from-node-manage-range/after-liveness-change-without-membership-change".to_string(),
                    json!({"phase": "recovered", "family": v.family, "node_ids": v.ids, "dead": v.dead(), "local": v.local, "history": v.history,
                           "node_manage_current_range": [o.snap.range.index, o.snap.range.len], "naming_actor_current_range": other.map(|(i, l)| vec![i, l])}),
                ),
            }
        }
        // full group judgement for the patterns that are complete after the recovery step
        let _ = evaluate("recovered", &sub, &keys, Some(&fresh), &mut rep).await?;
        membership_phase(&mut sub, &keys, &fresh, &mut rep).await?;
        membership_phase(&mut rest, &keys, &fresh, &mut rep).await?;
        drop(rest);
    }
    *stop.borrow_mut() = true;
    rep.count("total_ms", t0.elapsed().as_millis() as u64);
    Ok(rep)
}

pub fn run(args: &Args) -> anyhow::Result<()> {
    let sys = actix_rt::System::new();
    let rep = sys.block_on(run_async(args))?;
    rep.write(args)
}
