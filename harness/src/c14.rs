//! C14 rig (see DESIGN.md section 3/C14) - filled in by the C14 check.
use crate::util::Args;

pub fn run(_args: &Args) -> anyhow::Result<()> {
    anyhow::bail!("not implemented")
}
