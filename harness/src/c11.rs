//! C11 — registry bookkeeping: counters, indexes and reverse maps always match the instances.
//!
//! A stand-alone `NamingActor` (plain, or injected with a small `AppSysConfig` so that the health / instance
//! time-outs are 3 s / 4 s and the actor's own 2 s timer runs) is driven by seeded histories of every writer the
//! actor has (HTTP, gRPC, cluster sync, Raft, clean-up, time-outs). After EVERY operation the state is observed
//! (a) through the public queries and (b) through the read-only `VerifNamingProbe` hook and the mirrors are compared
//! with the instances themselves. The first drift of a history ends it; untimed histories are shrunk by re-running
//! sub-sequences on fresh actors. The generator / rig / observation types are shared with C12 (`crate::c12`).
use crate::util::{rng, Args, Report};
use actix::prelude::*;
use bean_factory::{BeanDefinition, BeanFactory};
use rand::rngs::StdRng;
use rand::Rng;
use rnacos::common::AppSysConfig;
use rnacos::naming::cluster::model::{ProcessRange, SnapshotForReceive};
use rnacos::naming::core::{NamingActor, NamingCmd, NamingResult};
use rnacos::naming::instance_meta_repository::InstanceMetaDto;
use rnacos::naming::model::actor_model::{InstanceRegisterParam, NamingRaftReq};
use rnacos::naming::model::{
    DistroData, Instance, InstanceKey, InstanceShortKey, InstanceUpdateTag, ServiceDetailDto, ServiceKey,
};
use rnacos::naming::service_index::ServiceQueryParam;
use rnacos::naming::verif_hooks::VerifNamingProbe;
use serde::{Deserialize, Serialize};
use serde_json::{json, Value};
use std::collections::{BTreeMap, BTreeSet, HashMap, HashSet};
use std::sync::Arc;
use std::time::{Duration, Instant};

// ---------------------------------------------------------------- universe
pub const NS: [&str; 2] = ["ns-a", "public"];
pub const GROUPS: [&str; 2] = ["DEFAULT_GROUP", "g2"];
pub const SVCS: [&str; 3] = ["svc0", "svc1", "svc2"];
pub const ADDRS: [(&str, u32); 5] = [("10.0.0.1", 8080), ("10.0.0.1", 8081), ("10.0.0.2", 8080), ("10.0.0.3", 8080), ("10.0.0.4", 9000)];
/// two connections of this node (raft node id 1) and two that were synchronised from node 2
pub const CLIENTS: [&str; 4] = ["1_127.0.0.1:50001", "1_127.0.0.1:50002", "2_127.0.0.1:60001", "2_127.0.0.1:60002"];
pub const HEALTH_TIMEOUT_MS: i64 = 3000;
pub const INSTANCE_TIMEOUT_MS: i64 = 4000;

#[derive(Clone, Copy, Debug, Serialize, Deserialize, PartialEq, Eq, PartialOrd, Ord)]
pub struct Svc {
    pub ns: usize,
    pub g: usize,
    pub s: usize,
}

impl Svc {
    pub fn key(&self) -> ServiceKey {
        ServiceKey::new(NS[self.ns], GROUPS[self.g], SVCS[self.s])
    }
    pub fn name(&self) -> (String, String, String) {
        (NS[self.ns].to_string(), GROUPS[self.g].to_string(), SVCS[self.s].to_string())
    }
    pub fn all() -> Vec<Svc> {
        let mut v = vec![];
        for ns in 0..NS.len() {
            for g in 0..GROUPS.len() {
                for s in 0..SVCS.len() {
                    v.push(Svc { ns, g, s });
                }
            }
        }
        v
    }
}

#[derive(Clone, Debug, Serialize, Deserialize)]
pub struct ISpec {
    pub svc: Svc,
    pub a: usize,
    pub healthy: bool,
    pub enabled: bool,
    pub ephemeral: bool,
    pub weight: f32,
    pub meta: u8,
    pub from_grpc: bool,
    pub from_cluster: u64,
    pub client: String,
}

impl ISpec {
    pub fn addr(&self) -> (String, u32) {
        (ADDRS[self.a].0.to_string(), ADDRS[self.a].1)
    }
}

/// weight, metadata, enabled, ephemeral, from_update
pub type Tag = Option<[bool; 5]>;

pub fn mk_tag(t: &Tag) -> Option<InstanceUpdateTag> {
    t.map(|t| InstanceUpdateTag { weight: t[0], metadata: t[1], enabled: t[2], ephemeral: t[3], from_update: t[4] })
}

pub fn meta_of(m: u8) -> HashMap<String, String> {
    let mut h = HashMap::new();
    if m >= 1 {
        h.insert("v".to_string(), m.to_string());
    }
    if m >= 2 {
        h.insert("zone".to_string(), "z".to_string());
    }
    h
}

pub fn mk_instance(i: &ISpec) -> Instance {
    let mut inst = Instance::new(ADDRS[i.a].0.to_string(), ADDRS[i.a].1);
    inst.namespace_id = Arc::new(NS[i.svc.ns].to_string());
    inst.group_name = Arc::new(GROUPS[i.svc.g].to_string());
    inst.service_name = Arc::new(SVCS[i.svc.s].to_string());
    inst.healthy = i.healthy;
    inst.enabled = i.enabled;
    inst.ephemeral = i.ephemeral;
    inst.weight = i.weight;
    inst.metadata = Arc::new(meta_of(i.meta));
    inst.from_grpc = i.from_grpc;
    inst.from_cluster = i.from_cluster;
    inst.client_id = Arc::new(i.client.clone());
    inst.generate_key();
    inst
}

pub fn mk_param(i: &ISpec) -> InstanceRegisterParam {
    InstanceRegisterParam {
        ip: Arc::new(ADDRS[i.a].0.to_string()),
        port: ADDRS[i.a].1,
        weight: i.weight,
        enabled: i.enabled,
        healthy: i.healthy,
        ephemeral: i.ephemeral,
        metadata: Arc::new(meta_of(i.meta)),
        namespace_id: Arc::new(NS[i.svc.ns].to_string()),
        group_name: Arc::new(GROUPS[i.svc.g].to_string()),
        service_name: Arc::new(SVCS[i.svc.s].to_string()),
        cluster_name: None,
        app_name: None,
        last_modified_millis: crate::util::now_ms() as i64,
    }
}

pub fn mk_ikey(svc: &Svc, a: usize) -> InstanceKey {
    InstanceKey::new_by_service_key(&svc.key(), Arc::new(ADDRS[a].0.to_string()), ADDRS[a].1)
}

#[derive(Clone, Debug, Serialize, Deserialize)]
pub enum Op {
    /// NamingCmd::Update — HTTP (from_grpc=false), gRPC (from_grpc, client) or a routed cluster write (from_cluster>0)
    Update { inst: ISpec, tag: Tag },
    UpdateFromSync { inst: ISpec, tag: Tag },
    UpdateBatch { insts: Vec<ISpec> },
    RaftRegister { inst: ISpec },
    RaftUpdate { inst: ISpec },
    RaftRemove { svc: Svc, a: usize },
    Delete { inst: ISpec },
    DeleteBatch { insts: Vec<ISpec> },
    RemoveClient { client: String },
    RemoveClientFromCluster { client: String },
    RemoveClientsFromCluster { clients: Vec<String> },
    ReceiveSnapshot { services: Vec<(Svc, Option<f32>)>, insts: Vec<ISpec> },
    RefreshRange { index: usize, len: usize },
    DiffDistro { cluster_id: u64, data: Vec<(String, Vec<(Svc, usize)>)> },
    Sniff { a: usize, services: Vec<Svc>, success: bool },
    UpdateService { svc: Svc, threshold: Option<f32>, from_cluster: bool },
    RemoveService { svc: Svc },
    InitMeta { svc: Svc, addrs: Vec<usize> },
    Peek,
    Sleep { ms: u64 },
}

impl Op {
    pub fn kind(&self) -> String {
        match self {
            Op::Update { inst, tag } => {
                let origin = if inst.from_cluster > 0 {
                    "routed"
                } else if inst.from_grpc {
                    "grpc"
                } else {
                    "http"
                };
                format!("update-{}{}", origin, tag_class(tag))
            }
            Op::UpdateFromSync { tag, .. } => format!("update-sync{}", tag_class(tag)),
            Op::UpdateBatch { .. } => "update-batch".into(),
            Op::RaftRegister { .. } => "raft-register".into(),
            Op::RaftUpdate { .. } => "raft-update".into(),
            Op::RaftRemove { .. } => "raft-remove".into(),
            Op::Delete { .. } => "delete".into(),
            Op::DeleteBatch { .. } => "delete-batch".into(),
            Op::RemoveClient { .. } => "remove-client".into(),
            Op::RemoveClientFromCluster { .. } => "remove-client-from-cluster".into(),
            Op::RemoveClientsFromCluster { .. } => "remove-clients-from-cluster".into(),
            Op::ReceiveSnapshot { .. } => "receive-snapshot".into(),
            Op::RefreshRange { .. } => "refresh-range".into(),
            Op::DiffDistro { .. } => "diff-distro".into(),
            Op::Sniff { success, .. } => format!("sniff-{}", if *success { "up" } else { "down" }),
            Op::UpdateService { .. } => "update-service".into(),
            Op::RemoveService { .. } => "remove-service".into(),
            Op::InitMeta { .. } => "init-meta".into(),
            Op::Peek => "peek-timeout".into(),
            Op::Sleep { .. } => "sleep+timer".into(),
        }
    }
    /// the single instance key an operation is aimed at (None for multi-target operations)
    pub fn target(&self) -> Option<(Svc, usize)> {
        match self {
            Op::Update { inst, .. } | Op::UpdateFromSync { inst, .. } | Op::RaftRegister { inst } | Op::RaftUpdate { inst } | Op::Delete { inst } => {
                Some((inst.svc, inst.a))
            }
            Op::RaftRemove { svc, a } => Some((*svc, *a)),
            _ => None,
        }
    }
}

fn tag_class(t: &Tag) -> &'static str {
    match t {
        None => "",
        Some(t) if !t[0] && !t[1] && !t[2] && !t[3] => "/beat",
        Some(t) if t[4] => "/tag-console",
        Some(_) => "/tag",
    }
}

// ---------------------------------------------------------------- rig
pub struct Rig {
    pub addr: Addr<NamingActor>,
    pub timed: bool,
    pub t0: Instant,
}

impl Rig {
    /// `timed`: inject an AppSysConfig (health 0 s + 3 s, instance 1 s + 3 s, node id 1) through a BeanFactory exactly as
    /// starter.rs does; this also starts the actor's own 2 s timer (empty-service clean-up, PeekListenerTimeout).
    pub async fn new(timed: bool) -> Rig {
        let addr = NamingActor::new().start();
        if timed {
            let mut cfg = AppSysConfig::default();
            cfg.naming_health_timeout = 0;
            cfg.naming_instance_timeout = 1000;
            cfg.raft_node_id = 1;
            cfg.naming_perpetual_instance_probe_interval = 0;
            let factory = BeanFactory::new();
            factory.register(BeanDefinition::from_obj(Arc::new(cfg)));
            factory.register(BeanDefinition::actor_with_inject_from_obj(addr.clone()));
            factory.init().await;
            // the inject message is delivered asynchronously; one round trip makes sure it was handled
            let _ = addr.send(NamingCmd::QueryClientInstanceCount).await;
            tokio::time::sleep(Duration::from_millis(20)).await;
        }
        Rig { addr, timed, t0: Instant::now() }
    }

    pub async fn cmd(&self, c: NamingCmd) -> anyhow::Result<NamingResult> {
        match self.addr.send(c).await {
            Ok(r) => r,
            Err(e) => Err(anyhow::anyhow!("mailbox: {}", e)),
        }
    }

    /// returns Err only for harness failures; a refusal by the actor (RemoveService on a non-empty service) is Ok(false)
    pub async fn apply(&self, op: &Op) -> anyhow::Result<bool> {
        let r = match op {
            Op::Update { inst, tag } => self.cmd(NamingCmd::Update(mk_instance(inst), mk_tag(tag))).await,
            Op::UpdateFromSync { inst, tag } => self.cmd(NamingCmd::UpdateFromSync(mk_instance(inst), mk_tag(tag))).await,
            Op::UpdateBatch { insts } => self.cmd(NamingCmd::UpdateBatch(insts.iter().map(mk_instance).collect())).await,
            Op::RaftRegister { inst } => {
                return match self.addr.send(NamingRaftReq::RegisterInstance { param: mk_param(inst) }).await {
                    Ok(r) => Ok(r.is_ok()),
                    Err(e) => Err(anyhow::anyhow!("mailbox: {}", e)),
                }
            }
            Op::RaftUpdate { inst } => {
                return match self.addr.send(NamingRaftReq::UpdateInstance { param: mk_param(inst) }).await {
                    Ok(r) => Ok(r.is_ok()),
                    Err(e) => Err(anyhow::anyhow!("mailbox: {}", e)),
                }
            }
            Op::RaftRemove { svc, a } => {
                return match self.addr.send(NamingRaftReq::RemoveInstance(mk_ikey(svc, *a))).await {
                    Ok(r) => Ok(r.is_ok()),
                    Err(e) => Err(anyhow::anyhow!("mailbox: {}", e)),
                }
            }
            Op::Delete { inst } => self.cmd(NamingCmd::Delete(mk_instance(inst))).await,
            Op::DeleteBatch { insts } => self.cmd(NamingCmd::DeleteBatch(insts.iter().map(mk_instance).collect())).await,
            Op::RemoveClient { client } => self.cmd(NamingCmd::RemoveClient(Arc::new(client.clone()))).await,
            Op::RemoveClientFromCluster { client } => self.cmd(NamingCmd::RemoveClientFromCluster(Arc::new(client.clone()))).await,
            Op::RemoveClientsFromCluster { clients } => {
                self.cmd(NamingCmd::RemoveClientsFromCluster(clients.iter().map(|c| Arc::new(c.clone())).collect())).await
            }
            Op::ReceiveSnapshot { services, insts } => {
                let services = services
                    .iter()
                    .map(|(s, th)| ServiceDetailDto {
                        namespace_id: Arc::new(NS[s.ns].to_string()),
                        group_name: Arc::new(GROUPS[s.g].to_string()),
                        service_name: Arc::new(SVCS[s.s].to_string()),
                        metadata: None,
                        protect_threshold: *th,
                        grpc_instance_count: None,
                    })
                    .collect();
                self.cmd(NamingCmd::ReceiveSnapshot(SnapshotForReceive { route_index: 0, node_count: 0, services, instances: insts.iter().map(mk_instance).collect() })).await
            }
            Op::RefreshRange { index, len } => self.cmd(NamingCmd::ClusterRefreshProcessRange(ProcessRange::new(*index, *len))).await,
            Op::DiffDistro { cluster_id, data } => {
                let mut m: HashMap<Arc<String>, HashSet<InstanceKey>> = HashMap::new();
                for (c, keys) in data {
                    m.insert(Arc::new(c.clone()), keys.iter().map(|(s, a)| mk_ikey(s, *a)).collect());
                }
                self.cmd(NamingCmd::DiffGrpcDistroData { cluster_id: *cluster_id, data: DistroData::ClientInstances(m) }).await
            }
            Op::Sniff { a, services, success } => {
                self.cmd(NamingCmd::PerpetualHostSniffing {
                    host: InstanceShortKey::new(Arc::new(ADDRS[*a].0.to_string()), ADDRS[*a].1),
                    service_keys: services.iter().map(|s| s.key()).collect(),
                    success: *success,
                })
                .await
            }
            Op::UpdateService { svc, threshold, from_cluster } => {
                let d = ServiceDetailDto {
                    namespace_id: Arc::new(NS[svc.ns].to_string()),
                    group_name: Arc::new(GROUPS[svc.g].to_string()),
                    service_name: Arc::new(SVCS[svc.s].to_string()),
                    metadata: None,
                    protect_threshold: *threshold,
                    grpc_instance_count: None,
                };
                if *from_cluster {
                    self.cmd(NamingCmd::UpdateServiceFromCluster(d)).await
                } else {
                    self.cmd(NamingCmd::UpdateService(d)).await
                }
            }
            Op::RemoveService { svc } => {
                // an Err answer ("The service has instances") is the actor refusing, not a harness failure
                return match self.addr.send(NamingCmd::RemoveService(svc.key())).await {
                    Ok(r) => Ok(r.is_ok()),
                    Err(e) => Err(anyhow::anyhow!("mailbox: {}", e)),
                };
            }
            Op::InitMeta { svc, addrs } => {
                let recs = addrs
                    .iter()
                    .map(|a| InstanceMetaDto::new(svc.key(), InstanceShortKey::new(Arc::new(ADDRS[*a].0.to_string()), ADDRS[*a].1), Arc::new(meta_of(2))))
                    .collect();
                self.cmd(NamingCmd::InitInstanceMeta(svc.key(), recs)).await
            }
            Op::Peek => self.cmd(NamingCmd::PeekListenerTimeout).await,
            Op::Sleep { ms } => {
                tokio::time::sleep(Duration::from_millis(*ms)).await;
                return Ok(true);
            }
        };
        r.map(|_| true)
    }
}

// ---------------------------------------------------------------- observation
#[derive(Clone, Debug, Default)]
pub struct PInst {
    pub healthy: bool,
    pub enabled: bool,
    pub ephemeral: bool,
    pub from_grpc: bool,
    pub from_cluster: u64,
    pub client: String,
    pub last_modified: i64,
    pub weight: f32,
}

impl PInst {
    pub fn class(&self) -> String {
        format!(
            "{}-{}-{}",
            if self.healthy { "healthy" } else { "unhealthy" },
            if self.ephemeral { "ephemeral" } else { "persistent" },
            match (self.from_grpc, self.from_cluster > 0) {
                (false, false) => "http",
                (true, false) => "grpc",
                (true, true) => "cluster-grpc",
                (false, true) => "cluster-http",
            }
        )
    }
    pub fn timeout_enabled(&self) -> bool {
        self.ephemeral && !self.from_grpc && self.from_cluster == 0
    }
}

type SKey = (String, String, String);
type AKey = (String, u32);

#[derive(Clone, Debug, Default)]
pub struct PSvc {
    pub instance_size: i64,
    pub healthy_size: i64,
    pub insts: BTreeMap<AKey, PInst>,
    pub perpetual: BTreeSet<String>,
    pub healthy_timeout_len: u64,
    pub unhealthy_timeout_len: u64,
}

#[derive(Clone, Debug, Default)]
pub struct Obs {
    pub t_ms: i64,
    pub retries: u32,
    // probe
    pub services: BTreeMap<SKey, PSvc>,
    pub index: Vec<SKey>,
    pub index_size: u64,
    pub clients: BTreeMap<String, Vec<(SKey, AKey)>>,
    pub empty_set_len: u64,
    // public queries
    pub info: BTreeMap<String, (usize, Vec<(String, String, i64, i64)>)>,
    pub all: BTreeMap<SKey, BTreeMap<AKey, PInst>>,
    pub all_dups: Vec<(SKey, AKey)>,
    pub pages: BTreeMap<(String, String), (usize, Vec<String>)>,
    pub phantom_listed: Vec<SKey>,
    pub client_counts: Vec<(String, usize)>,
}

fn s(v: &Value) -> String {
    v.as_str().unwrap_or("").to_string()
}

pub fn pinst_of(i: &Instance) -> PInst {
    PInst {
        healthy: i.healthy,
        enabled: i.enabled,
        ephemeral: i.ephemeral,
        from_grpc: i.from_grpc,
        from_cluster: i.from_cluster,
        client: i.client_id.as_ref().clone(),
        last_modified: i.last_modified_millis,
        weight: i.weight,
    }
}

/// One observation = probe + ~25 public queries, each a separate message. On a timed rig the actor's own 2 s timer may run
/// between two of them; the probe is therefore taken again at the end and the whole observation is repeated when the two
/// probes differ, so that all parts of an accepted observation describe the same state.
pub async fn observe(rig: &Rig) -> anyhow::Result<Obs> {
    for attempt in 0..8 {
        let (o, p1) = observe_once(rig).await?;
        if !rig.timed {
            return Ok(o);
        }
        let p2: Value = rig.addr.send(VerifNamingProbe).await.map_err(|e| anyhow::anyhow!("mailbox: {}", e))?;
        if p1 == p2 {
            let mut o = o;
            o.retries = attempt;
            return Ok(o);
        }
    }
    Err(anyhow::anyhow!("no stable observation in 8 attempts (timer kept interleaving)"))
}

async fn observe_once(rig: &Rig) -> anyhow::Result<(Obs, Value)> {
    let mut o = Obs { t_ms: crate::util::now_ms() as i64, ..Default::default() };
    let p: Value = rig.addr.send(VerifNamingProbe).await.map_err(|e| anyhow::anyhow!("mailbox: {}", e))?;
    for sv in p["services"].as_array().cloned().unwrap_or_default() {
        let key = (s(&sv["namespace"]), s(&sv["group"]), s(&sv["service"]));
        let mut ps = PSvc {
            instance_size: sv["instance_size"].as_i64().unwrap_or(i64::MIN),
            healthy_size: sv["healthy_instance_size"].as_i64().unwrap_or(i64::MIN),
            healthy_timeout_len: sv["healthy_timeout_set_len"].as_u64().unwrap_or(0),
            unhealthy_timeout_len: sv["unhealthy_timeout_set_len"].as_u64().unwrap_or(0),
            ..Default::default()
        };
        for i in sv["instances"].as_array().cloned().unwrap_or_default() {
            ps.insts.insert(
                (s(&i["ip"]), i["port"].as_u64().unwrap_or(0) as u32),
                PInst {
                    healthy: i["healthy"].as_bool().unwrap_or(false),
                    enabled: i["enabled"].as_bool().unwrap_or(false),
                    ephemeral: i["ephemeral"].as_bool().unwrap_or(false),
                    from_grpc: i["from_grpc"].as_bool().unwrap_or(false),
                    from_cluster: i["from_cluster"].as_u64().unwrap_or(0),
                    client: s(&i["client_id"]),
                    last_modified: i["last_modified_millis"].as_i64().unwrap_or(0),
                    weight: 0.0,
                },
            );
        }
        for h in sv["perpetual_host_set"].as_array().cloned().unwrap_or_default() {
            ps.perpetual.insert(s(&h));
        }
        o.services.insert(key, ps);
    }
    for e in p["namespace_index"].as_array().cloned().unwrap_or_default() {
        o.index.push((s(&e[0]), s(&e[1]), s(&e[2])));
    }
    o.index_size = p["namespace_index_service_size"].as_u64().unwrap_or(u64::MAX);
    o.empty_set_len = p["empty_service_set_len"].as_u64().unwrap_or(0);
    for c in p["client_instance_set"].as_array().cloned().unwrap_or_default() {
        let mut l = vec![];
        for k in c["instances"].as_array().cloned().unwrap_or_default() {
            l.push(((s(&k["namespace"]), s(&k["group"]), s(&k["service"])), (s(&k["ip"]), k["port"].as_u64().unwrap_or(0) as u32)));
        }
        o.clients.insert(s(&c["client_id"]), l);
    }
    // ---- public queries
    for ns in NS.iter() {
        let param = ServiceQueryParam { namespace_id: Some(Arc::new(ns.to_string())), offset: 0, limit: 100_000, ..Default::default() };
        if let NamingResult::ServiceInfoPage((size, list)) = rig.cmd(NamingCmd::QueryServiceInfoPage(param)).await? {
            let l = list.iter().map(|d| (d.group_name.as_ref().clone(), d.service_name.as_ref().clone(), d.instance_size, d.healthy_instance_size)).collect();
            o.info.insert(ns.to_string(), (size, l));
        }
        for g in GROUPS.iter() {
            if let NamingResult::ServicePage((size, names)) = rig.cmd(NamingCmd::QueryServicePage(ServiceKey::new(ns, g, ""), 100_000, 1)).await? {
                let names: Vec<String> = names.iter().map(|n| n.as_ref().clone()).collect();
                for n in &names {
                    if let NamingResult::ServiceDto(None) = rig.cmd(NamingCmd::QueryServiceOnly(ServiceKey::new(ns, g, n))).await? {
                        o.phantom_listed.push((ns.to_string(), g.to_string(), n.clone()));
                    }
                }
                o.pages.insert((ns.to_string(), g.to_string()), (size, names));
            }
        }
    }
    for sv in Svc::all() {
        if let NamingResult::InstanceList(list) = rig.cmd(NamingCmd::QueryAllInstanceList(sv.key())).await? {
            let mut m = BTreeMap::new();
            for i in list {
                let k = (i.ip.as_ref().clone(), i.port);
                if m.insert(k.clone(), pinst_of(&i)).is_some() {
                    o.all_dups.push((sv.name(), k));
                }
            }
            o.all.insert(sv.name(), m);
        }
    }
    if let NamingResult::ClientInstanceCount(l) = rig.cmd(NamingCmd::QueryClientInstanceCount).await? {
        o.client_counts = l.into_iter().map(|(c, n)| (c.as_ref().clone(), n)).collect();
    }
    Ok((o, p))
}

// ---------------------------------------------------------------- oracle
pub struct Finding {
    pub mirror: &'static str,
    pub dir: &'static str,
    pub svc: Option<SKey>,
    pub detail: Value,
}

fn hi_lo(counter: i64, real: i64) -> &'static str {
    if counter > real {
        "counter-high"
    } else {
        "counter-low"
    }
}

pub fn check(prev: Option<&Obs>, cur: &Obs) -> Vec<Finding> {
    let mut f = vec![];
    // ---------- a service that vanished although its last observation had instances explains every other drift of this step: first
    if let Some(prev) = prev {
        // two observations are at most a few seconds apart, emptying a service and dropping it needs 30 s (or two operations)
        for (k, ps) in &prev.services {
            if !ps.insts.is_empty() && !cur.services.contains_key(k) {
                f.push(Finding { mirror: "service-drop", dir: "dropped-while-it-had-instances", svc: Some(k.clone()), detail: json!({"service": k, "instances_at_last_observation": ps.insts.len(), "ms_since_last_observation": cur.t_ms - prev.t_ms}) });
            }
        }
    }
    // ---------- (a) public queries
    for (ns, (size, list)) in &cur.info {
        if *size != list.len() {
            f.push(Finding { mirror: "public/service-info-page", dir: "total-differs-from-rows", svc: None, detail: json!({"namespace": ns, "total": size, "rows": list.len()}) });
        }
        let mut seen: BTreeMap<(String, String), u32> = BTreeMap::new();
        for (g, name, isz, hsz) in list {
            *seen.entry((g.clone(), name.clone())).or_insert(0) += 1;
            let key = (ns.clone(), g.clone(), name.clone());
            let all = cur.all.get(&key).cloned().unwrap_or_default();
            let healthy = all.values().filter(|i| i.healthy).count() as i64;
            if *isz != all.len() as i64 {
                f.push(Finding { mirror: "public/instance_size", dir: hi_lo(*isz, all.len() as i64), svc: Some(key.clone()), detail: json!({"service": key, "reported": isz, "QueryAllInstanceList": all.len()}) });
            }
            if *hsz != healthy {
                f.push(Finding { mirror: "public/healthy_instance_size", dir: hi_lo(*hsz, healthy), svc: Some(key.clone()), detail: json!({"service": key, "reported": hsz, "healthy_returned": healthy, "returned": all.len()}) });
            }
        }
        for ((g, name), n) in &seen {
            if *n > 1 {
                f.push(Finding { mirror: "public/service-info-page", dir: "listed-twice", svc: Some((ns.clone(), g.clone(), name.clone())), detail: json!({"namespace": ns, "group": g, "service": name, "times": n}) });
            }
        }
        for (key, all) in &cur.all {
            if &key.0 == ns && !all.is_empty() && !seen.contains_key(&(key.1.clone(), key.2.clone())) {
                f.push(Finding { mirror: "public/service-info-page", dir: "service-with-data-not-listed", svc: Some(key.clone()), detail: json!({"service": key, "instances": all.len()}) });
            }
        }
    }
    for ((ns, g), (size, names)) in &cur.pages {
        let set: BTreeSet<&String> = names.iter().collect();
        if set.len() != names.len() {
            f.push(Finding { mirror: "public/service-page", dir: "listed-twice", svc: None, detail: json!({"namespace": ns, "group": g, "names": names}) });
        }
        if *size != names.len() {
            f.push(Finding { mirror: "public/service-page", dir: "total-differs-from-rows", svc: None, detail: json!({"namespace": ns, "group": g, "total": size, "names": names}) });
        }
        for (key, all) in &cur.all {
            if &key.0 == ns && &key.1 == g && !all.is_empty() && !set.contains(&key.2) {
                f.push(Finding { mirror: "public/service-page", dir: "service-with-data-not-listed", svc: Some(key.clone()), detail: json!({"service": key, "instances": all.len(), "listed": names}) });
            }
        }
    }
    for k in &cur.phantom_listed {
        f.push(Finding { mirror: "public/service-page", dir: "listed-but-nonexistent", svc: Some(k.clone()), detail: json!({"service": k}) });
    }
    for (k, a) in &cur.all_dups {
        f.push(Finding { mirror: "public/instance-list", dir: "address-returned-twice", svc: Some(k.clone()), detail: json!({"service": k, "addr": a}) });
    }
    {
        let mut carrying: BTreeMap<String, (usize, usize)> = BTreeMap::new(); // client -> (all with that id, grpc-owned with that id)
        for all in cur.all.values() {
            for i in all.values() {
                if !i.client.is_empty() {
                    let e = carrying.entry(i.client.clone()).or_insert((0, 0));
                    e.0 += 1;
                    if i.from_grpc {
                        e.1 += 1;
                    }
                }
            }
        }
        let counts: BTreeMap<String, usize> = cur.client_counts.iter().cloned().collect();
        let mut ids: BTreeSet<String> = counts.keys().cloned().collect();
        ids.extend(carrying.keys().cloned());
        for c in ids {
            let n = counts.get(&c).cloned().unwrap_or(0);
            let (any, grpc) = carrying.get(&c).cloned().unwrap_or((0, 0));
            if n > any {
                f.push(Finding { mirror: "public/client-instance-count", dir: "counts-instances-that-do-not-carry-the-client", svc: None, detail: json!({"client": c, "QueryClientInstanceCount": n, "instances_with_client_id": any}) });
            } else if n < grpc {
                f.push(Finding { mirror: "public/client-instance-count", dir: "misses-grpc-owned-instances", svc: None, detail: json!({"client": c, "QueryClientInstanceCount": n, "grpc_instances_with_client_id": grpc}) });
            }
        }
    }
    // ---------- (b) probe
    for (key, ps) in &cur.services {
        let n = ps.insts.len() as i64;
        let h = ps.insts.values().filter(|i| i.healthy).count() as i64;
        if ps.instance_size != n {
            f.push(Finding { mirror: "probe/instance_size", dir: hi_lo(ps.instance_size, n), svc: Some(key.clone()), detail: json!({"service": key, "instance_size": ps.instance_size, "instances": n}) });
        }
        if ps.healthy_size != h {
            f.push(Finding { mirror: "probe/healthy_instance_size", dir: hi_lo(ps.healthy_size, h), svc: Some(key.clone()), detail: json!({"service": key, "healthy_instance_size": ps.healthy_size, "healthy_instances": h}) });
        }
        let non_eph: BTreeSet<String> = ps.insts.iter().filter(|(_, i)| !i.ephemeral).map(|(k, _)| format!("{}:{}", k.0, k.1)).collect();
        if non_eph != ps.perpetual {
            let extra: Vec<&String> = ps.perpetual.difference(&non_eph).collect();
            let missing: Vec<&String> = non_eph.difference(&ps.perpetual).collect();
            let dir = if !missing.is_empty() { "persistent-instance-not-in-set" } else { "set-has-non-persistent-or-absent-host" };
            f.push(Finding { mirror: "probe/perpetual_host_set", dir, svc: Some(key.clone()), detail: json!({"service": key, "extra_in_set": extra, "missing_from_set": missing}) });
        }
    }
    for (client, keys) in &cur.clients {
        for (sk, ak) in keys {
            match cur.services.get(sk).and_then(|p| p.insts.get(ak)) {
                None => f.push(Finding { mirror: "probe/client_instance_set", dir: "entry-for-absent-instance", svc: Some(sk.clone()), detail: json!({"client": client, "service": sk, "addr": ak}) }),
                Some(i) if &i.client != client => f.push(Finding { mirror: "probe/client_instance_set", dir: "entry-for-instance-of-another-client", svc: Some(sk.clone()), detail: json!({"client": client, "service": sk, "addr": ak, "instance_client": i.client}) }),
                _ => {}
            }
        }
    }
    for (sk, ps) in &cur.services {
        for (ak, i) in &ps.insts {
            if i.from_grpc && !i.client.is_empty() {
                let rec = cur.clients.get(&i.client).map(|l| l.iter().any(|(s2, a2)| s2 == sk && a2 == ak)).unwrap_or(false);
                if !rec {
                    f.push(Finding { mirror: "probe/client_instance_set", dir: "grpc-instance-not-recorded", svc: Some(sk.clone()), detail: json!({"client": i.client, "service": sk, "addr": ak}) });
                }
            }
        }
    }
    {
        let mut cnt: BTreeMap<&SKey, u32> = BTreeMap::new();
        for e in &cur.index {
            *cnt.entry(e).or_insert(0) += 1;
        }
        for (k, n) in &cnt {
            if *n > 1 {
                f.push(Finding { mirror: "probe/namespace_index", dir: "listed-twice", svc: Some((*k).clone()), detail: json!({"service": k, "times": n}) });
            }
            if !cur.services.contains_key(*k) {
                f.push(Finding { mirror: "probe/namespace_index", dir: "listed-but-nonexistent", svc: Some((*k).clone()), detail: json!({"service": k}) });
            }
        }
        for k in cur.services.keys() {
            if !cnt.contains_key(k) {
                f.push(Finding { mirror: "probe/namespace_index", dir: "service-not-listed", svc: Some(k.clone()), detail: json!({"service": k, "instances": cur.services[k].insts.len()}) });
            }
        }
        if cur.index_size != cnt.len() as u64 {
            f.push(Finding { mirror: "probe/namespace_index.service_size", dir: if cur.index_size > cnt.len() as u64 { "counter-high" } else { "counter-low" }, svc: None, detail: json!({"service_size": cur.index_size, "indexed": cnt.len()}) });
        }
    }
    f
}

// ---------------------------------------------------------------- generator
pub struct Gen {
    pub r: StdRng,
    pub hot: Vec<Svc>,
    pub timed: bool,
}

impl Gen {
    pub fn new(seed: u64, timed: bool) -> Gen {
        let mut r = rng(seed);
        let all = Svc::all();
        let n_hot = r.gen_range(1..=4);
        let hot = (0..n_hot).map(|_| all[r.gen_range(0..all.len())]).collect();
        Gen { r, hot, timed }
    }
    pub fn svc(&mut self) -> Svc {
        if self.r.gen_bool(0.75) {
            self.hot[self.r.gen_range(0..self.hot.len())]
        } else {
            let all = Svc::all();
            all[self.r.gen_range(0..all.len())]
        }
    }
    fn addr(&mut self) -> usize {
        // address 0..2 hot
        if self.r.gen_bool(0.7) {
            self.r.gen_range(0..3)
        } else {
            self.r.gen_range(0..ADDRS.len())
        }
    }
    fn weight(&mut self) -> f32 {
        *crate::util::pick(&mut self.r, &[1.0f32, 1.0, 0.5, 2.0, 10.0])
    }
    pub fn ispec(&mut self, origin: &str) -> ISpec {
        let svc = self.svc();
        let a = self.addr();
        let (from_grpc, from_cluster, client) = match origin {
            "http" => (false, 0, String::new()),
            "grpc" => (true, 0, CLIENTS[self.r.gen_range(0..2)].to_string()),
            "cluster-grpc" => (true, 2, CLIENTS[self.r.gen_range(2..4)].to_string()),
            "cluster-http" => (false, 2, String::new()),
            _ => (false, 0, String::new()),
        };
        ISpec {
            svc,
            a,
            healthy: self.r.gen_bool(0.75),
            enabled: self.r.gen_bool(0.8),
            ephemeral: self.r.gen_bool(if origin == "raft" { 0.1 } else { 0.75 }),
            weight: self.weight(),
            meta: self.r.gen_range(0..3),
            from_grpc,
            from_cluster,
            client,
        }
    }
    fn tag(&mut self) -> Tag {
        let x = self.r.gen_range(0..100);
        if x < 25 {
            None
        } else if x < 40 {
            Some([false; 5])
        } else if x < 50 {
            Some([true, true, true, true, false])
        } else {
            Some([self.r.gen(), self.r.gen(), self.r.gen(), self.r.gen(), self.r.gen_bool(0.3)])
        }
    }
    /// a concrete operation, biased by what is currently registered (`view`)
    pub fn op(&mut self, view: &Obs) -> Op {
        let present: Vec<(SKey, AKey, PInst)> = view.services.iter().flat_map(|(k, p)| p.insts.iter().map(move |(a, i)| (k.clone(), a.clone(), i.clone()))).collect();
        let x = self.r.gen_range(0..if self.timed { 135 } else { 105 });
        match x {
            0..=15 => Op::Update { inst: self.ispec("http"), tag: self.tag() },
            16..=31 => {
                let inst = self.ispec("grpc");
                // half of the gRPC writes use exactly the tag the gRPC handler builds
                let tag = if self.r.gen_bool(0.5) { Some([inst.weight != 1.0, true, !inst.enabled, false, false]) } else { self.tag() };
                Op::Update { inst, tag }
            }
            32..=36 => {
                let o = if self.r.gen_bool(0.5) { "cluster-grpc" } else { "cluster-http" };
                Op::UpdateFromSync { inst: self.ispec(o), tag: self.tag() }
            }
            37..=39 => {
                let o = if self.r.gen_bool(0.5) { "cluster-grpc" } else { "cluster-http" };
                Op::Update { inst: self.ispec(o), tag: None }
            }
            40..=43 => {
                let n = self.r.gen_range(1..5);
                Op::UpdateBatch { insts: (0..n).map(|_| { let o = if self.r.gen_bool(0.6) { "cluster-grpc" } else { "cluster-http" }; self.ispec(o) }).collect() }
            }
            44..=47 => Op::RaftRegister { inst: self.ispec("raft") },
            48..=50 => Op::RaftUpdate { inst: self.ispec("raft") },
            51..=53 => {
                if let Some((k, a, _)) = self.pick_present(&present, |i| !i.ephemeral) {
                    Op::RaftRemove { svc: svc_of(&k), a: addr_of(&a) }
                } else {
                    Op::RaftRemove { svc: self.svc(), a: self.addr() }
                }
            }
            54..=66 => Op::Delete { inst: self.delete_spec(&present) },
            67..=69 => {
                let n = self.r.gen_range(1..4);
                Op::DeleteBatch { insts: (0..n).map(|_| self.delete_spec(&present)).collect() }
            }
            70..=74 => Op::RemoveClient { client: CLIENTS[self.r.gen_range(0..2)].to_string() },
            75..=77 => Op::RemoveClientFromCluster { client: CLIENTS[self.r.gen_range(1..4)].to_string() },
            78 => Op::RemoveClientsFromCluster { clients: vec![CLIENTS[2].to_string(), CLIENTS[3].to_string()] },
            79..=80 => {
                let ns = self.r.gen_range(0..3);
                let services = (0..ns).map(|_| (self.svc(), if self.r.gen_bool(0.5) { Some(0.5) } else { None })).collect();
                let ni = self.r.gen_range(0..5);
                Op::ReceiveSnapshot { services, insts: (0..ni).map(|_| { let o = if self.r.gen_bool(0.5) { "cluster-grpc" } else { "cluster-http" }; self.ispec(o) }).collect() }
            }
            81..=83 => {
                let len = self.r.gen_range(1..4);
                Op::RefreshRange { index: self.r.gen_range(0..len), len }
            }
            84..=85 => {
                // what node 2 says its clients own: the current view with some keys dropped / invented
                let mut data = vec![];
                for c in &CLIENTS[2..4] {
                    if self.r.gen_bool(0.8) {
                        let mut keys: Vec<(Svc, usize)> = view.clients.get(*c).map(|l| l.iter().map(|(k, a)| (svc_of(k), addr_of(a))).collect()).unwrap_or_default();
                        keys.retain(|_| self.r.gen_bool(0.6));
                        if self.r.gen_bool(0.4) {
                            keys.push((self.svc(), self.addr()));
                        }
                        data.push((c.to_string(), keys));
                    }
                }
                if self.r.gen_bool(0.2) {
                    data.push((CLIENTS[0].to_string(), vec![]));
                }
                Op::DiffDistro { cluster_id: 2, data }
            }
            86..=89 => {
                let a = self.addr();
                let n = self.r.gen_range(1..3);
                Op::Sniff { a, services: (0..n).map(|_| self.svc()).collect(), success: self.r.gen_bool(0.5) }
            }
            90..=92 => Op::UpdateService { svc: self.svc(), threshold: if self.r.gen_bool(0.7) { Some(*crate::util::pick(&mut self.r, &[0.0f32, 0.3, 0.8, 1.0])) } else { None }, from_cluster: self.r.gen_bool(0.3) },
            93..=96 => {
                // prefer services that exist and are empty
                let empties: Vec<Svc> = view.services.iter().filter(|(_, p)| p.insts.is_empty()).map(|(k, _)| svc_of(k)).collect();
                if !empties.is_empty() && self.r.gen_bool(0.6) {
                    Op::RemoveService { svc: empties[self.r.gen_range(0..empties.len())] }
                } else {
                    Op::RemoveService { svc: self.svc() }
                }
            }
            97..=99 => Op::Peek,
            100 => Op::InitMeta { svc: self.svc(), addrs: vec![self.addr(), self.addr()] },
            101..=104 => {
                // heartbeat of something registered over HTTP
                if let Some((k, a, i)) = self.pick_present(&present, |i| !i.from_grpc) {
                    Op::Update { inst: ISpec { svc: svc_of(&k), a: addr_of(&a), healthy: true, enabled: true, ephemeral: i.ephemeral, weight: 1.0, meta: 0, from_grpc: false, from_cluster: 0, client: String::new() }, tag: Some([false; 5]) }
                } else {
                    Op::Update { inst: self.ispec("http"), tag: Some([false; 5]) }
                }
            }
            105..=122 => Op::Sleep { ms: *crate::util::pick(&mut self.r, &[150u64, 300, 600, 900, 1300, 2100]) },
            123..=128 => Op::Peek,
            _ => {
                if let Some((k, a, i)) = self.pick_present(&present, |i| i.timeout_enabled()) {
                    Op::Update { inst: ISpec { svc: svc_of(&k), a: addr_of(&a), healthy: true, enabled: true, ephemeral: i.ephemeral, weight: 1.0, meta: 0, from_grpc: false, from_cluster: 0, client: String::new() }, tag: Some([false; 5]) }
                } else {
                    Op::Peek
                }
            }
        }
    }
    fn pick_present(&mut self, present: &[(SKey, AKey, PInst)], pred: impl Fn(&PInst) -> bool) -> Option<(SKey, AKey, PInst)> {
        let c: Vec<&(SKey, AKey, PInst)> = present.iter().filter(|(_, _, i)| pred(i)).collect();
        if c.is_empty() {
            None
        } else {
            Some(c[self.r.gen_range(0..c.len())].clone())
        }
    }
    fn delete_spec(&mut self, present: &[(SKey, AKey, PInst)]) -> ISpec {
        let mut sp = self.ispec("http");
        if let Some((k, a, i)) = self.pick_present(present, |_| true) {
            if self.r.gen_bool(0.8) {
                sp.svc = svc_of(&k);
                sp.a = addr_of(&a);
                let x = self.r.gen_range(0..100);
                sp.client = if x < 45 {
                    i.client.clone() // matching (possibly empty)
                } else if x < 75 {
                    let others: Vec<&&str> = CLIENTS.iter().filter(|c| **c != i.client.as_str()).collect();
                    others[self.r.gen_range(0..others.len())].to_string() // foreign
                } else {
                    String::new() // empty
                };
                sp.from_grpc = !sp.client.is_empty();
                sp.from_cluster = if sp.client.starts_with("2_") { 2 } else { 0 };
                return sp;
            }
        }
        if self.r.gen_bool(0.5) {
            sp.client = CLIENTS[self.r.gen_range(0..4)].to_string();
        }
        sp
    }
}

pub fn svc_of(k: &SKey) -> Svc {
    Svc { ns: NS.iter().position(|x| *x == k.0).unwrap_or(0), g: GROUPS.iter().position(|x| *x == k.1).unwrap_or(0), s: SVCS.iter().position(|x| *x == k.2).unwrap_or(0) }
}
pub fn addr_of(a: &AKey) -> usize {
    ADDRS.iter().position(|x| x.0 == a.0 && x.1 == a.1).unwrap_or(0)
}

pub fn prior_class(prev: &Obs, op: &Op) -> String {
    match op.target() {
        Some((svc, a)) => {
            let ak = (ADDRS[a].0.to_string(), ADDRS[a].1);
            match prev.services.get(&svc.name()).and_then(|p| p.insts.get(&ak)) {
                Some(i) => i.class(),
                None => "absent".to_string(),
            }
        }
        None => "multi".to_string(),
    }
}

// ---------------------------------------------------------------- one history
pub struct HistOut {
    pub ops: Vec<Op>,
    pub steps: u64,
    pub shapes: BTreeMap<String, u64>,
    pub counters: BTreeMap<String, u64>,
    /// (mirror, dir, index of the op after which it was first seen, details)
    pub failure: Option<(String, String, usize, Value)>,
    pub harness_error: Option<String>,
}

fn bump(m: &mut BTreeMap<String, u64>, k: &str, n: u64) {
    *m.entry(k.to_string()).or_insert(0) += n;
}

/// what happened to the registry between two observations, for the evidence counters
fn effects(prev: &Obs, cur: &Obs, op: &Op, c: &mut BTreeMap<String, u64>) -> bool {
    let mut changed = false;
    let passive = matches!(op, Op::Peek | Op::Sleep { .. });
    for (k, ps) in &prev.services {
        match cur.services.get(k) {
            None => {
                changed = true;
                bump(c, if passive { "empty_service_dropped_by_timer" } else { "empty_service_removed_by_request" }, 1);
            }
            Some(cs) => {
                for (a, i) in &ps.insts {
                    match cs.insts.get(a) {
                        None => {
                            changed = true;
                            if passive {
                                bump(c, "instance_removed_by_timeout", 1);
                            } else {
                                bump(c, "instance_removed", 1);
                                if i.timeout_enabled() {
                                    bump(c, "expiry_armed_key_removed_before_expiry", 1);
                                }
                            }
                        }
                        Some(j) => {
                            if i.healthy != j.healthy {
                                changed = true;
                                if passive && !j.healthy {
                                    bump(c, "instance_marked_unhealthy_by_timeout", 1);
                                } else {
                                    bump(c, "health_flip", 1);
                                }
                            }
                            if i.ephemeral != j.ephemeral {
                                changed = true;
                                bump(c, if j.ephemeral { "flip_persistent_to_ephemeral" } else { "flip_ephemeral_to_persistent" }, 1);
                            }
                            if i.timeout_enabled() && !j.timeout_enabled() {
                                bump(c, "expiry_armed_key_replaced_by_non_expiring_instance", 1);
                            }
                            if i.client != j.client {
                                changed = true;
                                bump(c, "owner_change", 1);
                            }
                            if i.enabled != j.enabled {
                                changed = true;
                            }
                        }
                    }
                }
                for a in cs.insts.keys() {
                    if !ps.insts.contains_key(a) {
                        changed = true;
                        bump(c, "instance_added", 1);
                    }
                }
            }
        }
    }
    for k in cur.services.keys() {
        if !prev.services.contains_key(k) {
            changed = true;
            bump(c, "service_created", 1);
        }
    }
    if let Op::Delete { inst } = op {
        let ak = inst.addr();
        if let Some(i) = prev.services.get(&inst.svc.name()).and_then(|p| p.insts.get(&ak)) {
            let still = cur.services.get(&inst.svc.name()).map(|p| p.insts.contains_key(&ak)).unwrap_or(false);
            if still {
                bump(c, "delete_refused_foreign_client", 1);
            } else if inst.client.is_empty() && !i.client.is_empty() {
                bump(c, "delete_by_empty_client_id_of_owned_instance", 1);
            } else if inst.client == i.client {
                bump(c, "delete_by_matching_client_id", 1);
            } else {
                bump(c, "delete_of_persistent_instance_by_other_client_id", 1);
            }
        } else {
            bump(c, "delete_of_absent_key", 1);
        }
    }
    changed
}

pub enum Plan {
    /// generate `n` operations online
    Generate { seed: u64, n: usize, budget_ms: u64 },
    /// replay exactly these
    Fixed(Vec<Op>),
}

pub async fn run_history(timed: bool, plan: Plan) -> HistOut {
    let mut out = HistOut { ops: vec![], steps: 0, shapes: BTreeMap::new(), counters: BTreeMap::new(), failure: None, harness_error: None };
    let rig = Rig::new(timed).await;
    let mut prev = match observe(&rig).await {
        Ok(o) => o,
        Err(e) => {
            out.harness_error = Some(format!("{:?}", e));
            return out;
        }
    };
    let (mut gen, n, fixed, budget_ms) = match plan {
        Plan::Generate { seed, n, budget_ms } => (Some(Gen::new(seed, timed)), n, vec![], budget_ms),
        Plan::Fixed(v) => (None, v.len(), v, u64::MAX),
    };
    for i in 0..n {
        if rig.t0.elapsed().as_millis() as u64 > budget_ms {
            break;
        }
        let op = match gen.as_mut() {
            Some(g) => g.op(&prev),
            None => fixed[i].clone(),
        };
        let kind = op.kind();
        let pc = prior_class(&prev, &op);
        out.ops.push(op.clone());
        if let Err(e) = rig.apply(&op).await {
            out.harness_error = Some(format!("{}: {:?}", kind, e));
            return out;
        }
        let cur = match observe(&rig).await {
            Ok(o) => o,
            Err(e) => {
                out.harness_error = Some(format!("observe after {}: {:?}", kind, e));
                return out;
            }
        };
        out.steps += 1;
        if cur.retries > 0 {
            bump(&mut out.counters, "observations_repeated_because_the_timer_ran_in_between", 1);
        }
        let changed = effects(&prev, &cur, &op, &mut out.counters);
        bump(&mut out.counters, &format!("op/{}", kind), 1);
        if let Op::Update { tag: Some(t), .. } | Op::UpdateFromSync { tag: Some(t), .. } = &op {
            // every InstanceUpdateTag combination (weight, metadata, enabled, ephemeral, from_update) counts as a shape of its own
            let bits: String = t.iter().map(|b| if *b { '1' } else { '0' }).collect();
            bump(&mut out.shapes, &format!("update-tag/{}@{}", bits, if pc == "absent" { "absent" } else { "present" }), 1);
        }
        let shape = if op.target().is_some() { format!("{}@{}", kind, pc) } else { format!("{}@{}", kind, if changed { "effect" } else { "no-effect" }) };
        bump(&mut out.shapes, &shape, 1);
        let fs = check(Some(&prev), &cur);
        if let Some(f) = fs.first() {
            // prior class of the instance where the drift shows (single-target operations: the target)
            let all: Vec<Value> = fs.iter().map(|f| json!({"mirror": f.mirror, "direction": f.dir, "detail": f.detail})).collect();
            out.failure = Some((f.mirror.to_string(), f.dir.to_string(), i, json!({"op": kind, "prior_state_of_target": pc, "all_drifts_at_this_step": all})));
            return out;
        }
        prev = cur;
    }
    // final state: page-by-page listings (does not end or shorten the history; one finding per history at most)
    let mut walks: anyhow::Result<Vec<Finding>> = Ok(vec![]);
    let mut page_size = 1;
    for ps in 1..=3 {
        page_size = ps;
        walks = paged_walk(&rig, ps).await;
        if !matches!(&walks, Ok(v) if v.is_empty()) {
            break;
        }
    }
    match walks {
        Ok(fs) => {
            bump(&mut out.counters, "paged_listing_walks", 1);
            let nss: BTreeSet<&String> = prev.index.iter().map(|k| &k.0).collect();
            bump(&mut out.shapes, &format!("paged-walk/page-size-{}/{}-namespaces/{}", page_size, nss.len(), if prev.index.len() > page_size { "several-pages" } else { "one-page" }), 1);
            if let Some(f) = fs.first() {
                let all: Vec<Value> = fs.iter().map(|f| json!({"mirror": f.mirror, "direction": f.dir, "detail": f.detail})).collect();
                out.failure = Some((f.mirror.to_string(), f.dir.to_string(), out.ops.len().saturating_sub(1), json!({"op": "paged-listing-of-final-state", "prior_state_of_target": format!("{}-namespaces-with-services", nss.len().min(2)), "all_drifts_at_this_step": all})));
            }
        }
        Err(e) => out.harness_error = Some(format!("paged walk: {:?}", e)),
    }
    out
}

/// final-state check: walking the service listing page by page must list every indexed service exactly once
/// (a) per namespace with QueryServicePage, (b) across all namespaces with QueryServiceInfoPage(namespace_id: None)
pub async fn paged_walk(rig: &Rig, page_size: usize) -> anyhow::Result<Vec<Finding>> {
    for _ in 0..4 {
        let before = observe(rig).await?;
        let f = paged_walk_once(rig, page_size, &before).await?;
        let after = observe(rig).await?;
        if before.index == after.index {
            return Ok(f);
        }
    }
    Ok(vec![])
}

async fn paged_walk_once(rig: &Rig, page_size: usize, obs: &Obs) -> anyhow::Result<Vec<Finding>> {
    let mut f = vec![];
    let indexed: BTreeSet<SKey> = obs.index.iter().cloned().collect();
    // (a)
    for ns in NS.iter() {
        for g in GROUPS.iter() {
            let want: BTreeSet<String> = indexed.iter().filter(|k| k.0 == *ns && k.1 == *g).map(|k| k.2.clone()).collect();
            let mut got: Vec<String> = vec![];
            for page in 1..=(want.len() / page_size + 2) {
                if let NamingResult::ServicePage((_, names)) = rig.cmd(NamingCmd::QueryServicePage(ServiceKey::new(ns, g, ""), page_size, page)).await? {
                    got.extend(names.iter().map(|n| n.as_ref().clone()));
                }
            }
            let set: BTreeSet<String> = got.iter().cloned().collect();
            if set.len() != got.len() {
                f.push(Finding { mirror: "public/service-page-walk", dir: "listed-twice", svc: None, detail: json!({"namespace": ns, "group": g, "page_size": page_size, "walk": got}) });
            } else if set != want {
                f.push(Finding { mirror: "public/service-page-walk", dir: if want.difference(&set).next().is_some() { "service-skipped" } else { "listed-but-not-indexed" }, svc: None, detail: json!({"namespace": ns, "group": g, "page_size": page_size, "walk": got, "indexed": want}) });
            }
        }
    }
    // (b)
    let mut got: Vec<SKey> = vec![];
    let mut total = 0;
    let pages = indexed.len() / page_size + 2;
    for page in 0..pages {
        let param = ServiceQueryParam { namespace_id: None, offset: page * page_size, limit: page_size, ..Default::default() };
        if let NamingResult::ServiceInfoPage((size, list)) = rig.cmd(NamingCmd::QueryServiceInfoPage(param)).await? {
            total = size;
            // ServiceInfoDto carries no namespace: recover it from the index (group, service) -> namespaces, in listing order
            for d in list {
                got.push((String::new(), d.group_name.as_ref().clone(), d.service_name.as_ref().clone()));
            }
        }
    }
    // (c) filtered listings of one namespace (console / OpenAPI catalogue: exact or "contains" filters on group and service name),
    // walked page by page: the pages together list exactly the indexed services that match, each once, and every page reports
    // that number as the total
    for ns in NS.iter() {
        let filters: Vec<(&str, Option<&str>, Option<&str>, Option<&str>, Option<&str>)> = vec![
            ("like-service", None, None, None, Some("svc")),
            ("like-service", None, None, None, Some("1")),
            ("like-service", None, None, None, Some("c2")),
            ("exact-service", None, Some("svc0"), None, None),
            ("exact-service", None, Some("svc2"), None, None),
            ("exact-group", Some("g2"), None, None, None),
            ("like-group", None, None, Some("g"), None),
            ("like-group+like-service", None, None, Some("DEFAULT"), Some("2")),
            ("exact-group+like-service", Some("DEFAULT_GROUP"), None, None, Some("0")),
        ];
        for (fam, group, service, like_group, like_service) in filters {
            let gm = |g: &str| group.map(|x| x == g).unwrap_or_else(|| like_group.map(|x| g.contains(x)).unwrap_or(true));
            let sm = |sv: &str| service.map(|x| x == sv).unwrap_or_else(|| like_service.map(|x| sv.contains(x)).unwrap_or(true));
            let want: BTreeSet<(String, String)> = indexed.iter().filter(|k| k.0 == *ns && gm(&k.1) && sm(&k.2)).map(|k| (k.1.clone(), k.2.clone())).collect();
            let mut got: Vec<(String, String)> = vec![];
            let mut totals: BTreeSet<usize> = BTreeSet::new();
            for page in 0..(want.len() / page_size + 3) {
                let param = ServiceQueryParam {
                    namespace_id: Some(Arc::new(ns.to_string())),
                    group: group.map(|x| Arc::new(x.to_string())),
                    service: service.map(|x| Arc::new(x.to_string())),
                    like_group: like_group.map(|x| x.to_string()),
                    like_service: like_service.map(|x| x.to_string()),
                    offset: page * page_size,
                    limit: page_size,
                    ..Default::default()
                };
                if let NamingResult::ServiceInfoPage((size, list)) = rig.cmd(NamingCmd::QueryServiceInfoPage(param)).await? {
                    totals.insert(size);
                    for d in list {
                        got.push((d.group_name.as_ref().clone(), d.service_name.as_ref().clone()));
                    }
                }
            }
            let set: BTreeSet<(String, String)> = got.iter().cloned().collect();
            let dir = if set.len() != got.len() {
                Some("listed-twice")
            } else if want.difference(&set).next().is_some() {
                Some("matching-service-skipped")
            } else if set.difference(&want).next().is_some() {
                Some("non-matching-service-listed")
            } else if totals.iter().any(|t| *t != want.len()) {
                Some("total-differs-from-matches")
            } else {
                None
            };
            if let Some(dir) = dir {
                f.push(Finding {
                    mirror: "public/filtered-service-page-walk",
                    dir,
                    svc: None,
                    detail: json!({"namespace": ns, "filter_family": fam, "group": group, "service": service, "like_group": like_group, "like_service": like_service,
                                   "page_size": page_size, "walk": got, "totals_reported": totals, "matching_indexed": want}),
                });
                break;
            }
        }
    }
    // compare as multisets of (group, service) because the rows do not say which namespace they are from
    let mut want_ms: BTreeMap<(String, String), i64> = BTreeMap::new();
    for k in &indexed {
        *want_ms.entry((k.1.clone(), k.2.clone())).or_insert(0) += 1;
    }
    let mut got_ms: BTreeMap<(String, String), i64> = BTreeMap::new();
    for k in &got {
        *got_ms.entry((k.1.clone(), k.2.clone())).or_insert(0) += 1;
    }
    if total != indexed.len() {
        f.push(Finding { mirror: "public/service-info-page-all-namespaces", dir: "total-differs-from-index", svc: None, detail: json!({"total": total, "indexed": indexed.len()}) });
    }
    if got_ms != want_ms {
        let skipped: Vec<String> = want_ms.iter().filter(|(k, n)| got_ms.get(*k).cloned().unwrap_or(0) < **n).map(|(k, _)| format!("{}@@{}", k.0, k.1)).collect();
        let twice: Vec<String> = got_ms.iter().filter(|(k, n)| want_ms.get(*k).cloned().unwrap_or(0) < **n).map(|(k, _)| format!("{}@@{}", k.0, k.1)).collect();
        let per_ns: BTreeMap<String, usize> = NS.iter().map(|n| (n.to_string(), indexed.iter().filter(|k| k.0 == *n).count())).collect();
        f.push(Finding {
            mirror: "public/service-info-page-all-namespaces",
            dir: if !skipped.is_empty() { "paged-walk-skips-services" } else { "paged-walk-lists-services-twice" },
            svc: None,
            detail: json!({"page_size": page_size, "pages_walked": pages, "total_reported": total, "rows_returned": got.len(), "services_per_namespace": per_ns, "skipped": skipped, "listed_too_often": twice}),
        });
    }
    Ok(f)
}

/// delta-debugging on the operation list: keep a sub-list if a fresh actor shows the same (mirror, direction) drift
async fn shrink(ops: Vec<Op>, mirror: &str, dir: &str, budget: Duration) -> (Vec<Op>, u32) {
    let t0 = Instant::now();
    let mut cur = ops;
    let mut runs = 0u32;
    let mut chunk = cur.len() / 2;
    while chunk >= 1 && t0.elapsed() < budget {
        let mut i = 0;
        let mut progressed = false;
        while i < cur.len() && t0.elapsed() < budget {
            // never drop the last operation (it is the one that makes the drift visible)
            let end = (i + chunk).min(cur.len().saturating_sub(1));
            if end <= i {
                break;
            }
            let mut cand = cur.clone();
            cand.drain(i..end);
            runs += 1;
            let o = run_history(false, Plan::Fixed(cand.clone())).await;
            let same = matches!(&o.failure, Some((m, d, _, _)) if m == mirror && d == dir);
            if same {
                let at = o.failure.as_ref().map(|f| f.2).unwrap_or(cand.len() - 1);
                cand.truncate(at + 1);
                cur = cand;
                progressed = true;
            } else {
                i = end;
            }
        }
        if !progressed {
            chunk /= 2;
        }
    }
    (cur, runs)
}

/// operation family / prior state class used in violation signatures: coarser than the coverage shapes so that one root
/// cause (e.g. a counter not adjusted on replace, reachable through every kind of update) maps to a handful of signatures
pub fn sig_family(kind: &str) -> String {
    let k = kind.split('/').next().unwrap_or(kind);
    match k {
        "update-http" | "update-grpc" => k.to_string(),
        "update-routed" | "update-sync" | "update-batch" | "receive-snapshot" => "update-from-cluster".into(),
        "raft-register" | "raft-update" => "raft-write".into(),
        "delete" | "delete-batch" => "delete".into(),
        "remove-client" | "remove-client-from-cluster" | "remove-clients-from-cluster" | "diff-distro" => "client-removal".into(),
        "peek-timeout" | "sleep+timer" => "timeout-tick".into(),
        "sniff-up" | "sniff-down" => "health-probe".into(),
        "update-service" | "remove-service" | "init-meta" | "refresh-range" => "service-op".into(),
        other => other.to_string(),
    }
}

pub fn sig_prior(pc: &str) -> String {
    // healthy-ephemeral-grpc -> healthy-ephemeral
    let parts: Vec<&str> = pc.split('-').collect();
    if parts.len() >= 3 && (parts[0] == "healthy" || parts[0] == "unhealthy") {
        format!("{}-{}", parts[0], parts[1])
    } else {
        pc.to_string()
    }
}

pub fn signature(mirror: &str, dir: &str, detail: &Value) -> String {
    let op = detail["op"].as_str().unwrap_or("?");
    let pc = detail["prior_state_of_target"].as_str().unwrap_or("?");
    format!("{}/{}/{}@{}", mirror, dir, sig_family(op), sig_prior(pc))
}

#[allow(dead_code)]
pub fn signature_fine(mirror: &str, dir: &str, detail: &Value) -> String {
    format!("{}/{}/{}@{}", mirror, dir, detail["op"].as_str().unwrap_or("?"), detail["prior_state_of_target"].as_str().unwrap_or("?"))
}

async fn absorb(rep: &mut Report, o: HistOut, label: &str, seed: u64, timed: bool) {
    rep.evaluations += o.steps;
    for (k, v) in &o.shapes {
        *rep.shapes.entry(k.clone()).or_insert(0) += v;
    }
    for (k, v) in &o.counters {
        rep.count(k, *v);
    }
    rep.count(&format!("histories/{}", label), 1);
    if let Some(e) = &o.harness_error {
        rep.inconclusive.push(format!("{} history seed {}: {}", label, seed, e));
        return;
    }
    if let Some((mirror, dir, at, detail)) = o.failure {
        let mut ops = o.ops.clone();
        ops.truncate(at + 1);
        let mut detail = detail;
        let mut shrunk_runs = 0;
        let seen_key = format!("histories_with_drift/{}/{}", mirror, dir);
        let seen = rep.counters.get(&seen_key).cloned().unwrap_or(0);
        rep.count(&seen_key, 1);
        // shrink the first two failures of each (mirror, direction) per process; later ones are classified as they are
        if !timed && seen < 2 {
            // full shrinking budget for the first few failures of a process, a short one afterwards (keeps a run with many failures bounded)
            let budget = if rep.violations.len() < 3 && rep.counters.get("shrunk_failures").cloned().unwrap_or(0) < 4 { 15 } else { 2 };
            rep.count("shrunk_failures", 1);
            let (small, runs) = shrink(ops.clone(), &mirror, &dir, Duration::from_secs(budget)).await;
            shrunk_runs = runs;
            // classify on the shrunk history
            let again = run_history(false, Plan::Fixed(small.clone())).await;
            if let Some((m2, d2, at2, det2)) = again.failure {
                if m2 == mirror && d2 == dir {
                    ops = small;
                    ops.truncate(at2 + 1);
                    detail = det2;
                }
            }
        }
        let sig = signature(&mirror, &dir, &detail);
        rep.violation(sig, json!({"rig": label, "history_seed": seed, "timed": timed, "ops": ops, "first_seen_after_op_index": ops.len() - 1, "detail": detail, "shrink_runs": shrunk_runs,
            "replay": "vh c11 --replay <this file>"}));
    } else if rep.samples.len() < 3 {
        let tail: Vec<&Op> = o.ops.iter().take(12).collect();
        rep.sample(json!({"rig": label, "history_seed": seed, "steps": o.steps, "first_ops": tail, "verdict": "all mirrors agreed after every step"}), 3);
    }
}

/// a scripted long history for the empty-service clean-up done by the actor's own timer (30 s after the service became empty)
fn long_script(seed: u64) -> Vec<Op> {
    let mut r = rng(seed);
    let mut ops = vec![];
    let all = Svc::all();
    let a = all[r.gen_range(0..all.len())];
    let b = all[r.gen_range(0..all.len())];
    let c = all[r.gen_range(0..all.len())];
    let mk = |svc: Svc, a: usize, eph: bool, grpc: bool| ISpec { svc, a, healthy: true, enabled: true, ephemeral: eph, weight: 1.0, meta: 0, from_grpc: grpc, from_cluster: 0, client: if grpc { CLIENTS[0].to_string() } else { String::new() } };
    // a: registered then deleted -> empty at ~0 s -> dropped by the timer at ~30-32 s
    ops.push(Op::Update { inst: mk(a, 0, true, true), tag: None });
    ops.push(Op::Update { inst: mk(a, 1, false, false), tag: None });
    ops.push(Op::Delete { inst: mk(a, 0, true, true) });
    ops.push(Op::Delete { inst: mk(a, 1, false, false) });
    // b: HTTP ephemeral without heartbeat -> removed by time-out at ~4-6 s -> dropped ~36 s
    ops.push(Op::Update { inst: mk(b, 2, true, false), tag: None });
    // d: a service whose only instances are UNHEALTHY and never expire (gRPC-owned / persistent): its clean-up entry from the
    // creation runs out at ~30 s while it still has instances -> it must stay
    let d = all[r.gen_range(0..all.len())];
    if d != a && d != b {
        let mut u = mk(d, 3, true, true);
        u.healthy = false;
        u.client = CLIENTS[1].to_string();
        ops.push(Op::Update { inst: u, tag: None });
        let mut p = mk(d, 4, false, false);
        p.healthy = false;
        ops.push(Op::RaftRegister { inst: p });
    }
    // c: only created (UpdateService) -> empty from the start
    ops.push(Op::UpdateService { svc: c, threshold: Some(0.3), from_cluster: false });
    let variant = seed % 4;
    let mut t = 0u64;
    while t < 39_000 {
        let ms = *crate::util::pick(&mut r, &[700u64, 1100, 1900, 2300]);
        ops.push(Op::Sleep { ms });
        t += ms;
        if r.gen_bool(0.3) {
            ops.push(Op::Peek);
        }
        // variants: re-populate a shortly before the 30 s mark; empty it again; register through a client that is removed
        if variant == 1 && (24_000..26_500).contains(&t) {
            ops.push(Op::Update { inst: mk(a, 3, true, true), tag: None });
        }
        if variant == 2 && (15_000..17_500).contains(&t) {
            ops.push(Op::Update { inst: mk(a, 3, true, true), tag: None });
            ops.push(Op::RemoveClient { client: CLIENTS[0].to_string() });
        }
        if variant == 3 && (27_000..29_500).contains(&t) {
            ops.push(Op::Update { inst: mk(c, 4, false, false), tag: None });
        }
    }
    ops
}

pub fn run(args: &Args) -> anyhow::Result<()> {
    let seed = args.u64("seed", 1);
    let n_fast = args.u64("fast", 20);
    let n_ops = args.u64("ops", 200) as usize;
    let n_timed = args.u64("timed", 6);
    let n_long = args.u64("long", 2);
    let timed_ms = args.u64("timed-ms", 13_000);
    let sys = actix_rt::System::new();
    let mut rep = Report::default();
    if let Some(path) = args.get("replay") {
        let w: Value = serde_json::from_str(&std::fs::read_to_string(path)?)?;
        let w = if w.get("witness").is_some() { w["witness"].clone() } else { w };
        let ops: Vec<Op> = serde_json::from_value(w["ops"].clone())?;
        let timed = w["timed"].as_bool().unwrap_or(false);
        let o = sys.block_on(run_history(timed, Plan::Fixed(ops)));
        match (&o.failure, &o.harness_error) {
            (_, Some(e)) => println!("REPLAY harness-error {}", e),
            (Some((m, d, at, det)), _) => println!("REPLAY reproduced signature={} after-op-index={} detail={}", signature(m, d, det), at, det),
            _ => println!("REPLAY not-reproduced steps={}", o.steps),
        }
        return Ok(());
    }
    sys.block_on(async {
        let fast = async {
            let mut outs = vec![];
            for i in 0..n_fast {
                let hs = seed.wrapping_mul(1_000_003).wrapping_add(i);
                outs.push((hs, run_history(false, Plan::Generate { seed: hs, n: n_ops, budget_ms: u64::MAX }).await));
            }
            outs
        };
        let timed = futures_util::future::join_all((0..n_timed).map(|i| {
            let hs = seed.wrapping_mul(1_000_003).wrapping_add(500_000 + i);
            async move { (hs, run_history(true, Plan::Generate { seed: hs, n: 400, budget_ms: timed_ms }).await) }
        }));
        let long = futures_util::future::join_all((0..n_long).map(|i| {
            let hs = seed.wrapping_mul(1_000_003).wrapping_add(900_000 + i);
            async move { (hs, run_history(true, Plan::Fixed(long_script(hs))).await) }
        }));
        let (f, t, l) = futures_util::future::join3(fast, timed, long).await;
        for (hs, o) in f {
            absorb(&mut rep, o, "untimed", hs, false).await;
        }
        for (hs, o) in t {
            absorb(&mut rep, o, "timed", hs, true).await;
        }
        for (hs, o) in l {
            absorb(&mut rep, o, "long-timer", hs, true).await;
        }
    });
    rep.write(args)
}
