//! C11 rig (see DESIGN.md section 3/C11) - filled in by the C11 check.
use crate::util::Args;

pub fn run(_args: &Args) -> anyhow::Result<()> {
    anyhow::bail!("not implemented")
}
