//! C20 — length-prefixed record streams decode identically under every chunking.
//! Oracle: an independent reference decoder over the whole byte string.
use crate::util::{hex, pick, rng, Args, Report};
use rand::rngs::StdRng;
use rand::Rng;
use rnacos::common::protobuf_utils::{
    inner_sizeof_varint, read_varint64, read_varint64_offset, write_varint64, FileMessageReader,
    MessageBufReader,
};
use rnacos::raft::filestore::model::{LogRecordDto, SnapshotHeaderDto, SnapshotRecordDto};
use rnacos::raft::filestore::raftlog::LogInnerManager;
use rnacos::raft::filestore::raftsnapshot::{SnapshotReader, SnapshotWriter};
use serde_json::json;
use std::collections::HashMap;
use std::sync::Arc;

// ---------------------------------------------------------------- reference
fn ref_encode(mut v: u64) -> Vec<u8> {
    let mut out = vec![];
    loop {
        let b = (v & 0x7f) as u8;
        v >>= 7;
        if v == 0 {
            out.push(b);
            return out;
        }
        out.push(b | 0x80);
    }
}

/// (value, byte length) or None if truncated / longer than 10 bytes
fn ref_decode(bytes: &[u8], pos: usize) -> Option<(u64, usize)> {
    let mut v: u64 = 0;
    for k in 0..10 {
        let b = *bytes.get(pos + k)?;
        v |= ((b & 0x7f) as u64).wrapping_shl(7 * k as u32);
        if b & 0x80 == 0 {
            return Some((v, k + 1));
        }
    }
    None
}

/// reference record list: (start, total_len) of every complete record before the first zero length
fn ref_records(bytes: &[u8]) -> Vec<(usize, usize)> {
    let mut out = vec![];
    let mut pos = 0;
    while pos < bytes.len() {
        match ref_decode(bytes, pos) {
            Some((0, _)) | None => break,
            Some((len, vl)) => {
                let total = vl + len as usize;
                if pos + total > bytes.len() {
                    break;
                }
                out.push((pos, total));
                pos += total;
            }
        }
    }
    out
}

// ---------------------------------------------------------------- varints
fn varints(r: &mut StdRng, n_random: u64, rep: &mut Report) {
    let mut vals: Vec<u64> = vec![0, 1, u64::MAX, u64::MAX - 1];
    for k in 0..64u32 {
        let p = 1u64 << k;
        vals.push(p);
        vals.push(p.wrapping_sub(1));
        vals.push(p.wrapping_add(1));
    }
    for g in 1..10u32 {
        let p = 1u64 << (7 * g);
        vals.extend_from_slice(&[p - 1, p, p + 1]);
    }
    for _ in 0..n_random {
        let bits = r.gen_range(0..=64u32);
        let v = if bits == 64 {
            r.gen::<u64>()
        } else {
            r.gen::<u64>() & ((1u64 << bits).wrapping_sub(1))
        };
        vals.push(v);
    }
    for v in vals {
        rep.evaluations += 1;
        let want = ref_encode(v);
        let got = write_varint64(v);
        let nbytes = want.len();
        rep.shape(format!("varint/len{}", nbytes));
        if got != want {
            rep.violation(
                format!("varint/encode-mismatch/len{}", nbytes),
                json!({"value": v.to_string(), "got": hex(&got), "want": hex(&want)}),
            );
            continue;
        }
        if inner_sizeof_varint(v) != nbytes {
            rep.violation(
                format!("varint/sizeof-mismatch/len{}", nbytes),
                json!({"value": v.to_string(), "sizeof": inner_sizeof_varint(v), "written": nbytes}),
            );
        }
        // decode at offset 0 and at a non-zero offset inside a padded buffer whose
        // trailing bytes all have the continuation bit set (an over-read would show)
        let off = r.gen_range(1..7usize);
        let mut buf = vec![0xFFu8; off];
        buf.extend_from_slice(&want);
        buf.extend_from_slice(&[0xFF; 12]);
        let d0 = {
            let mut b0 = want.clone();
            b0.extend_from_slice(&[0xFF; 12]);
            read_varint64(&b0).ok()
        };
        let d1 = read_varint64_offset(&buf, off).ok();
        if d0 != Some(v) || d1 != Some(v) {
            rep.violation(
                format!("varint/decode-mismatch/len{}", nbytes),
                json!({"value": v.to_string(), "decoded0": format!("{:?}", d0), "decoded_off": format!("{:?}", d1), "offset": off}),
            );
        }
    }
}

// ---------------------------------------------------------------- stream generation
pub fn body(r: &mut StdRng, len: usize) -> Vec<u8> {
    // looks like a protobuf message: a non-zero tag first, then arbitrary bytes (zeros included)
    let mut b = vec![0u8; len];
    r.fill(&mut b[..]);
    if len > 0 {
        b[0] = 0x08 | (b[0] & 0x70);
        if b[0] == 0 {
            b[0] = 0x08;
        }
    }
    b
}

/// total encoded length of a record with body length n
#[allow(dead_code)]
fn enc_len(n: usize) -> usize {
    ref_encode(n as u64).len() + n
}

/// choose a body length so that the record ends `delta` bytes after the next multiple of `chunk`
/// counted from stream position `pos` (delta may be negative)
fn aligned_body_len(pos: usize, chunk: usize, mult: usize, delta: i64) -> Option<usize> {
    let target = ((pos / chunk) + mult) as i64 * chunk as i64 + delta;
    let total = target - pos as i64;
    if total < 2 {
        return None;
    }
    let total = total as usize;
    // body n with enc_len(n) == total
    for vl in 1..=4usize {
        if total > vl {
            let n = total - vl;
            if ref_encode(n as u64).len() == vl {
                return Some(n);
            }
        }
    }
    None
}

struct Stream {
    bytes: Vec<u8>,
    lens: Vec<usize>,
    align: &'static str,
}

fn gen_stream(r: &mut StdRng, max_records: usize, allow_big: bool) -> Stream {
    let n = r.gen_range(1..=max_records);
    let mut bytes = vec![];
    let mut lens = vec![];
    let mode = r.gen_range(0..10);
    let mut align = "other";
    for i in 0..n {
        let pos = bytes.len();
        let want_align = match mode {
            0..=3 => r.gen_bool(0.25) || i + 1 == n,
            4 | 5 => i + 1 == n,
            _ => false,
        };
        let len = if want_align {
            let delta = *pick(r, &[0i64, 0, 0, -1, 1]);
            let mult = *pick(r, &[1usize, 1, 1, 2, 3]);
            match aligned_body_len(pos, 1024, mult, delta) {
                Some(l) => {
                    if i + 1 == n {
                        align = match delta {
                            0 => "end-on-1024",
                            -1 => "end-1024-minus1",
                            _ => "end-1024-plus1",
                        };
                    }
                    l
                }
                None => 5,
            }
        } else {
            match r.gen_range(0..20) {
                0 => 1,
                1 => 2,
                2 => *pick(r, &[126usize, 127, 128, 129]),
                3 => *pick(r, &[1020usize, 1021, 1022, 1023, 1024, 1025, 1026]),
                4 if allow_big => *pick(r, &[16381usize, 16382, 16383, 16384, 16385, 16386]),
                5 if allow_big => r.gen_range(2048..6000),
                6 => r.gen_range(1000..1100),
                _ => r.gen_range(1..400),
            }
        };
        lens.push(len);
        bytes.extend_from_slice(&ref_encode(len as u64));
        bytes.extend_from_slice(&body(r, len));
    }
    let tail = *pick(r, &[0usize, 0, 1, 2, 9, 10, 11, 100, 1024, 3000]);
    bytes.extend(std::iter::repeat(0u8).take(tail));
    Stream { bytes, lens, align }
}

// ---------------------------------------------------------------- consumers replicated from the repo
/// scan loop as in LogInnerManager::move_to_index_by_count: stop when is_empty() after a drain
fn consume_scan(bytes: &[u8], chunks: &[usize]) -> Vec<Vec<u8>> {
    let mut reader = MessageBufReader::new();
    let mut out = vec![];
    let mut pos = 0;
    for &c in chunks {
        if c == 0 {
            continue;
        }
        reader.append_next_buf(&bytes[pos..pos + c]);
        pos += c;
        while let Some(v) = reader.next_message_vec() {
            out.push(v.to_vec());
        }
        if reader.is_empty() {
            break;
        }
    }
    out
}

/// EOF-terminated loop as in SnapshotReader::read_record / load_file_map / read_records
fn consume_eof(bytes: &[u8], chunks: &[usize]) -> Vec<Vec<u8>> {
    let mut reader = MessageBufReader::new();
    let mut out = vec![];
    let mut pos = 0;
    for &c in chunks {
        while let Some(v) = reader.next_message_vec() {
            out.push(v.to_vec());
        }
        if c == 0 {
            continue;
        }
        reader.append_next_buf(&bytes[pos..pos + c]);
        pos += c;
    }
    while let Some(v) = reader.next_message_vec() {
        out.push(v.to_vec());
    }
    out
}

/// all data given at construction as in TransferReader::new
fn consume_with_data(bytes: &[u8], prefix: usize) -> Vec<Vec<u8>> {
    let mut data = vec![0xEEu8; prefix];
    data.extend_from_slice(bytes);
    let mut reader = MessageBufReader::new_with_data(data, prefix);
    let mut out = vec![];
    while let Some(v) = reader.next_message_vec() {
        out.push(v.to_vec());
    }
    out
}

/// a panic inside the code under test is an observation (the stream is not decodable under that chunking), not a harness failure
fn guarded<T>(f: impl FnOnce() -> T) -> Result<T, String> {
    std::panic::catch_unwind(std::panic::AssertUnwindSafe(f)).map_err(|e| {
        if let Some(s) = e.downcast_ref::<String>() {
            s.clone()
        } else if let Some(s) = e.downcast_ref::<&str>() {
            s.to_string()
        } else {
            "panic".to_string()
        }
    })
}

fn chunk_fixed(n: usize, c: usize) -> Vec<usize> {
    let mut v = vec![c; n / c];
    if n % c > 0 {
        v.push(n % c);
    }
    v
}

fn chunk_random(r: &mut StdRng, n: usize) -> Vec<usize> {
    let mut v = vec![];
    let mut left = n;
    let fam = r.gen_range(0..4);
    while left > 0 {
        let c = match fam {
            0 => *pick(r, &[1usize, 2, 3, 7]),
            1 => *pick(r, &[1usize, 100, 1023, 1024, 1025, 4096]),
            2 => r.gen_range(1..=2048),
            _ => r.gen_range(1..=64),
        }
        .min(left);
        v.push(c);
        left -= c;
    }
    v
}

fn compare(
    rep: &mut Report,
    api: &str,
    family: &str,
    st: &Stream,
    chunks: &[usize],
    got: &[Vec<u8>],
    want: &[(usize, usize)],
) -> bool {
    rep.evaluations += 1;
    let mut symptom = None;
    if got.len() < want.len() {
        // early end or dropped?
        let prefix_ok = got
            .iter()
            .zip(want.iter())
            .all(|(g, (s, l))| g.as_slice() == &st.bytes[*s..*s + *l]);
        symptom = Some(if prefix_ok { "early-end" } else { "dropped-or-changed" });
    } else if got.len() > want.len() {
        symptom = Some("phantom-records");
    } else if !got
        .iter()
        .zip(want.iter())
        .all(|(g, (s, l))| g.as_slice() == &st.bytes[*s..*s + *l])
    {
        symptom = Some("record-bytes-differ");
    }
    if let Some(sym) = symptom {
        // does the last returned record end exactly where a chunk ended?
        let consumed: usize = got.iter().map(|g| g.len()).sum();
        let mut acc = 0;
        let mut on_boundary = false;
        for &c in chunks {
            acc += c;
            if acc == consumed {
                on_boundary = true;
            }
        }
        let cause = if sym == "early-end" && on_boundary {
            "record-ends-at-chunk-end"
        } else {
            "other"
        };
        rep.violation(
            format!("bufreader/{}/{}/{}", api, sym, cause),
            json!({"api": api, "chunk_family": family, "body_lens": st.lens, "stream_len": st.bytes.len(),
                   "chunks": if chunks.len() > 40 { json!({"n": chunks.len(), "first": &chunks[..40]}) } else { json!(chunks) },
                   "returned": got.len(), "expected": want.len(), "consumed_bytes": consumed}),
        );
        return false;
    }
    true
}

fn bufreader(r: &mut StdRng, n_streams: u64, rep: &mut Report) {
    for si in 0..n_streams {
        let st = gen_stream(r, 12, si % 3 == 0);
        let want = ref_records(&st.bytes);
        let n = st.bytes.len();
        let grew = st.lens.iter().any(|l| *l > 1000);
        let tail = n - want.iter().map(|w| w.1).sum::<usize>();
        let tail_c = if tail == 0 { "tail0" } else if tail < 10 { "tail<10" } else { "tail>=10" };
        let mut families: Vec<(&str, Vec<usize>)> = vec![
            ("fixed1024", chunk_fixed(n, 1024)),
            ("random", chunk_random(r, n)),
            ("random", chunk_random(r, n)),
        ];
        if n <= 4000 {
            families.push(("bytes1", vec![1; n]));
        }
        families.push(("whole", vec![n]));
        // chunk boundary placed exactly at a record end (the alignment every reader must survive)
        if want.len() >= 2 {
            let k = r.gen_range(0..want.len());
            let cut = want[k].0 + want[k].1;
            if cut < n {
                families.push(("split-at-record-end", vec![cut, n - cut]));
            }
            let cut2 = want[k].0 + 1;
            families.push(("split-in-prefix", vec![cut2.min(n), n - cut2.min(n)]));
        }
        for (fam, chunks) in &families {
            let got = match guarded(|| consume_scan(&st.bytes, chunks)) {
                Ok(g) => g,
                Err(msg) => {
                    rep.evaluations += 1;
                    rep.violation(format!("bufreader/scan/panic/{}", fam), json!({"panic": msg, "body_lens": st.lens, "chunks": if chunks.len() > 40 { json!(chunks.len()) } else { json!(chunks) }}));
                    continue;
                }
            };
            let ok1 = compare(rep, "scan", fam, &st, chunks, &got, &want);
            let got = match guarded(|| consume_eof(&st.bytes, chunks)) {
                Ok(g) => g,
                Err(msg) => {
                    rep.evaluations += 1;
                    rep.violation(format!("bufreader/eof-loop/panic/{}", fam), json!({"panic": msg, "body_lens": st.lens}));
                    continue;
                }
            };
            let ok2 = compare(rep, "eof-loop", fam, &st, chunks, &got, &want);
            if ok1 && ok2 {
                rep.shape(format!("buf/{}/{}/{}/{}", fam, st.align, if grew { "grow" } else { "nogrow" }, tail_c));
            }
        }
        match guarded(|| consume_with_data(&st.bytes, 8)) {
            Ok(got) => {
                compare(rep, "with-data", "whole", &st, &[n], &got, &want);
            }
            Err(msg) => rep.violation("bufreader/with-data/panic".to_string(), json!({"panic": msg})),
        }
        if si < 3 {
            rep.sample(json!({"kind":"bufreader","body_lens": st.lens, "stream_len": n, "align": st.align, "families": families.iter().map(|f| f.0).collect::<Vec<_>>()}), 6);
        }
    }
}

/// every two-chunk (and for tiny streams three-chunk) partition of short streams
fn bufreader_exhaustive(r: &mut StdRng, n_streams: u64, rep: &mut Report) {
    for si in 0..n_streams {
        let mut st = gen_stream(r, 5, false);
        if st.bytes.len() > 2600 {
            st.bytes.truncate(2600);
        }
        let want = ref_records(&st.bytes);
        let n = st.bytes.len();
        let mut all_ok = true;
        for s in 0..=n {
            let chunks = [s, n - s];
            match guarded(|| (consume_scan(&st.bytes, &chunks), consume_eof(&st.bytes, &chunks))) {
                Ok((g1, g2)) => {
                    all_ok &= compare(rep, "scan", "exh2", &st, &chunks, &g1, &want);
                    all_ok &= compare(rep, "eof-loop", "exh2", &st, &chunks, &g2, &want);
                }
                Err(msg) => {
                    all_ok = false;
                    rep.evaluations += 1;
                    rep.violation("bufreader/scan/panic/exh2".to_string(), json!({"panic": msg, "body_lens": st.lens, "chunks": chunks}));
                }
            }
        }
        if n <= 160 {
            for a in 0..=n {
                for b in a..=n {
                    let chunks = [a, b - a, n - b];
                    match guarded(|| consume_scan(&st.bytes, &chunks)) {
                        Ok(got) => all_ok &= compare(rep, "scan", "exh3", &st, &chunks, &got, &want),
                        Err(msg) => {
                            all_ok = false;
                            rep.evaluations += 1;
                            rep.violation("bufreader/scan/panic/exh3".to_string(), json!({"panic": msg, "chunks": chunks}));
                        }
                    }
                }
            }
            rep.count("exhaustive3_streams", 1);
        }
        rep.count("exhaustive2_streams", 1);
        if all_ok {
            rep.shape(format!("buf/exh/{}", st.align));
        }
        if si == 0 {
            rep.sample(json!({"kind":"bufreader-exhaustive-2split","body_lens": st.lens, "stream_len": n}), 8);
        }
    }
}

// ---------------------------------------------------------------- FileMessageReader + real consumers
/// another consumer of the record codec: the instance-metadata repository (a catalogue file of (service -> file) records and
/// one record file per service, both read back in 1024-byte chunks at start-up). Written through the public API, reopened,
/// compared with what was written.
async fn instance_meta_repo(r: &mut StdRng, n_rounds: u64, dir: &str, rep: &mut Report) -> anyhow::Result<()> {
    use rnacos::naming::instance_meta_repository::{InstanceMetaDto, InstanceMetaRepository};
    use rnacos::naming::model::{InstanceShortKey, ServiceKey};
    for round in 0..n_rounds {
        let n_services = *pick(r, &[1usize, 2, 7, 14, 15, 16, 23, 40, 97]);
        let base = format!("{}/imr_{}", dir, round);
        let _ = std::fs::remove_dir_all(&base);
        let mut want: HashMap<String, Vec<(String, u32, Vec<(String, String)>)>> = HashMap::new();
        let mut keys = vec![];
        {
            let mut repo = InstanceMetaRepository::new(base.clone()).await?;
            for si in 0..n_services {
                let name_len = *pick(r, &[3usize, 20, 60, 61, 62, 63, 64, 120]);
                let key = ServiceKey::new(
                    *pick(r, &["", "ns-a", "a-namespace-id-of-ordinary-length"]),
                    *pick(r, &["DEFAULT_GROUP", "g"]),
                    &format!("s{}-{}", si, "x".repeat(name_len)),
                );
                let n_inst = *pick(r, &[0usize, 1, 3, 12, 40]);
                let mut recs = vec![];
                let mut w = vec![];
                for ii in 0..n_inst {
                    let mut md = HashMap::new();
                    let mut mdv = vec![];
                    for mi in 0..r.gen_range(0..5usize) {
                        let v = "v".repeat(*pick(r, &[0usize, 1, 30, 200, 1000]));
                        md.insert(format!("k{}", mi), v.clone());
                        mdv.push((format!("k{}", mi), v));
                    }
                    mdv.sort();
                    let ip = format!("10.{}.{}.{}", si % 250, ii % 250, r.gen_range(1..250));
                    recs.push(InstanceMetaDto::new(key.clone(), InstanceShortKey::new(Arc::new(ip.clone()), 8000 + ii as u32), Arc::new(md)));
                    w.push((ip, 8000 + ii as u32, mdv));
                }
                w.sort();
                repo.update_metadata(&key, recs).await?;
                want.insert(format!("{}|{}|{}", key.namespace_id, key.group_name, key.service_name), w);
                keys.push(key);
            }
            // later updates of services that already have a file: fewer / shorter / more records than the file holds (the record file of a
            // service is rewritten as a whole; what the previous, longer version left behind must not be decoded)
            let n_again = if round % 2 == 0 { 0 } else { keys.len().min(*pick(r, &[1usize, 3, 10])) };
            for ui in 0..n_again {
                let key = keys[(ui * 7 + round as usize) % keys.len()].clone();
                for _ in 0..r.gen_range(1..4usize) {
                    let n_inst = *pick(r, &[0usize, 1, 2, 5, 30]);
                    let mut recs = vec![];
                    let mut w = vec![];
                    for ii in 0..n_inst {
                        let mut md = HashMap::new();
                        let mut mdv = vec![];
                        for mi in 0..r.gen_range(0..4usize) {
                            let v = "u".repeat(*pick(r, &[0usize, 2, 40, 700]));
                            md.insert(format!("k{}", mi), v.clone());
                            mdv.push((format!("k{}", mi), v));
                        }
                        mdv.sort();
                        let ip = format!("10.9.{}.{}", ii % 250, r.gen_range(1..250));
                        recs.push(InstanceMetaDto::new(key.clone(), InstanceShortKey::new(Arc::new(ip.clone()), 9000 + ii as u32), Arc::new(md)));
                        w.push((ip, 9000 + ii as u32, mdv));
                    }
                    w.sort();
                    repo.update_metadata(&key, recs).await?;
                    want.insert(format!("{}|{}|{}", key.namespace_id, key.group_name, key.service_name), w);
                }
                rep.shape("instance-meta-repository/service-file-rewritten".to_string());
            }
        }
        let catalogue_len = std::fs::metadata(format!("{}/file_map", base)).map(|m| m.len()).unwrap_or(0);
        let tail = if catalogue_len % 1024 == 0 { "chunk-aligned" } else if catalogue_len < 1024 { "one-short-chunk" } else { "short-last-chunk" };
        rep.evaluations += 1;
        let witness = json!({"services": n_services, "catalogue_bytes": catalogue_len});
        let repo = match guarded_async(InstanceMetaRepository::new(base.clone())).await {
            Ok(Ok(x)) => x,
            Ok(Err(e)) => {
                rep.violation(format!("instance-meta-repository/reopen-failed/{}", tail), json!({"error": e.to_string(), "case": witness}));
                continue;
            }
            Err(p) => {
                rep.violation(format!("instance-meta-repository/panic/{}", tail), json!({"panic": p, "case": witness}));
                continue;
            }
        };
        let mut listed: Vec<String> = repo.list_services().iter().map(|k| format!("{}|{}|{}", k.namespace_id, k.group_name, k.service_name)).collect();
        listed.sort();
        let mut expected: Vec<String> = want.keys().cloned().collect();
        expected.sort();
        if listed != expected {
            rep.violation(format!("instance-meta-repository/catalogue-differs-after-reopen/{}", tail),
                json!({"case": witness, "expected_services": expected.len(), "listed_services": listed.len(), "first_unexpected": listed.iter().find(|x| !expected.contains(x))}));
            continue;
        }
        let mut bad = None;
        for key in &keys {
            let got = repo.get_metadata(key).await?;
            let mut g: Vec<(String, u32, Vec<(String, String)>)> = got.iter().map(|d| {
                let mut m: Vec<(String, String)> = d.metadata.iter().map(|(a, b)| (a.clone(), b.clone())).collect();
                m.sort();
                (d.instance_key.ip.as_ref().clone(), d.instance_key.port, m)
            }).collect();
            g.sort();
            let name = format!("{}|{}|{}", key.namespace_id, key.group_name, key.service_name);
            if Some(&g) != want.get(&name) {
                let wl = want.get(&name).map(|x| x.len());
                bad = Some((name, g.len(), wl));
                break;
            }
        }
        if let Some((name, g, w)) = bad {
            rep.violation(format!("instance-meta-repository/records-differ-after-reopen/{}", tail), json!({"case": witness, "service": name, "got_records": g, "want_records": w}));
        } else {
            rep.shape(format!("instance-meta-repository/{}/services{}", tail, if n_services < 14 { "<14" } else if n_services < 40 { "14-39" } else { ">=40" }));
        }
        let _ = std::fs::remove_dir_all(&base);
    }
    Ok(())
}

async fn guarded_async<F: std::future::Future>(f: F) -> Result<F::Output, String> {
    use futures_util::FutureExt;
    match std::panic::AssertUnwindSafe(f).catch_unwind().await {
        Ok(v) => Ok(v),
        Err(e) => Err(e.downcast_ref::<String>().cloned().or_else(|| e.downcast_ref::<&str>().map(|s| s.to_string())).unwrap_or_else(|| "panic".into())),
    }
}

async fn file_reader(r: &mut StdRng, n_streams: u64, dir: &str, big: bool, rep: &mut Report) -> anyhow::Result<()> {
    for si in 0..n_streams {
        let mut st = gen_stream(r, 10, true);
        if big && si == 0 {
            // one record larger than tokio's 2 MiB internal file buffer
            let len = 2 * 1024 * 1024 + 4321;
            let mut b = ref_encode(len as u64);
            b.extend_from_slice(&body(r, len));
            b.extend_from_slice(&st.bytes);
            st.bytes = b;
            st.lens.insert(0, len);
            st.align = "huge-first";
        }
        let want = ref_records(&st.bytes);
        let prefix = *pick(r, &[0usize, 8, 8, 40]);
        let path = format!("{}/fmr_{}", dir, si);
        let mut data = vec![0xEEu8; prefix];
        data.extend_from_slice(&st.bytes);
        std::fs::write(&path, &data)?;
        // positions
        let f = tokio::fs::File::open(&path).await?;
        let mut fr = FileMessageReader::new(f, prefix as u64);
        fr.seek_start(prefix as u64).await?;
        let mut got = vec![];
        while let Ok(p) = fr.read_next_position().await {
            got.push((p.position as usize - prefix, p.len as usize));
            if got.len() > want.len() + 2 {
                break;
            }
        }
        rep.evaluations += 1;
        let tail = st.bytes.len() - want.iter().map(|w| w.1).sum::<usize>();
        let tail_c = if tail == 0 { "eof" } else if tail < 10 { "tail<10" } else { "tail>=10" };
        if got != want {
            let sym = if got.len() < want.len() { "early-end" } else if got.len() > want.len() { "phantom-records" } else { "positions-differ" };
            rep.violation(format!("filereader/positions/{}/{}", sym, tail_c),
                json!({"body_lens": st.lens, "prefix": prefix, "returned": got.len(), "expected": want.len()}));
            continue;
        }
        // read_next payloads
        let f = tokio::fs::File::open(&path).await?;
        let mut fr = FileMessageReader::new(f, prefix as u64);
        fr.seek_start(prefix as u64).await?;
        let mut ok = true;
        for (i, (s, l)) in want.iter().enumerate() {
            rep.evaluations += 1;
            match fr.read_next().await {
                Ok(v) if v.as_slice() == &st.bytes[*s..*s + *l] => {}
                Ok(v) => {
                    ok = false;
                    rep.violation(format!("filereader/read_next/bytes-differ/{}", size_class(*l)), json!({"record": i, "len": l, "got_len": v.len(), "body_lens": st.lens}));
                    break;
                }
                Err(e) => {
                    ok = false;
                    rep.violation(format!("filereader/read_next/error/{}", size_class(*l)), json!({"record": i, "len": l, "error": e.to_string(), "body_lens": if st.lens.len() < 30 { json!(st.lens) } else { json!(st.lens.len()) }}));
                    break;
                }
            }
        }
        // read_index_position(n) from a fresh reader, and read_to_end
        if !want.is_empty() {
            let k = r.gen_range(0..want.len());
            let f = tokio::fs::File::open(&path).await?;
            let mut fr = FileMessageReader::new(f, prefix as u64);
            fr.seek_start(prefix as u64).await?;
            rep.evaluations += 1;
            match fr.read_index_position(k).await {
                Ok(p) if (p.position as usize - prefix, p.len as usize) == want[k] => {}
                other => {
                    ok = false;
                    rep.violation("filereader/read_index_position/mismatch".to_string(), json!({"k": k, "got": format!("{:?}", other.map(|p| (p.position, p.len)).map_err(|e| e.to_string())), "want": want[k], "prefix": prefix}));
                }
            }
            let f = tokio::fs::File::open(&path).await?;
            let mut fr = FileMessageReader::new(f, prefix as u64);
            fr.seek_start(prefix as u64).await?;
            rep.evaluations += 1;
            let (count, last) = fr.read_to_end().await?;
            let w_last = want.last().unwrap();
            if count as usize != want.len() || last.get_end_position() as usize != prefix + w_last.0 + w_last.1 {
                ok = false;
                rep.violation("filereader/read_to_end/mismatch".to_string(), json!({"count": count, "expected": want.len(), "end": last.get_end_position()}));
            }
        }
        if ok {
            rep.shape(format!("file/{}/{}/prefix{}", st.align, tail_c, prefix));
        }
        std::fs::remove_file(&path).ok();
    }
    Ok(())
}

fn size_class(l: usize) -> &'static str {
    if l > 2 * 1024 * 1024 { ">2MiB" } else if l > 1024 { ">1KiB" } else { "<=1KiB" }
}

/// SnapshotWriter -> SnapshotReader round trip (real consumer, 1024-byte reads, EOF-terminated)
async fn snapshot_roundtrip(r: &mut StdRng, n: u64, dir: &str, rep: &mut Report) -> anyhow::Result<()> {
    for si in 0..n {
        let path = format!("{}/snap_{}", dir, si);
        let mut node_addrs = HashMap::new();
        node_addrs.insert(1u64, Arc::new("127.0.0.1:9848".to_string()));
        let header = SnapshotHeaderDto { last_index: 7, last_term: 1, member: vec![1], member_after_consensus: vec![], node_addrs };
        let mut w = SnapshotWriter::init(&path, header).await?;
        let mut recs = vec![];
        let cnt = r.gen_range(1..40);
        let mode = r.gen_range(0..3);
        for i in 0..cnt {
            let vlen = match mode {
                0 => r.gen_range(0..300),
                1 => *pick(r, &[900usize, 1000, 1005, 1006, 1007, 1008, 1009, 1010, 1011, 1012, 1013, 1014, 1015, 1016, 2030, 3050]),
                _ => r.gen_range(0..5000),
            };
            let rec = SnapshotRecordDto { tree: Arc::new(format!("T{}", i % 3)), key: format!("k{}", i).into_bytes(), value: body(r, vlen), op_type: 0 };
            w.write_record(&rec).await?;
            recs.push(rec);
        }
        w.flush().await?;
        drop(w);
        let flen = std::fs::metadata(&path)?.len();
        let mut rd = SnapshotReader::init(&path).await?;
        let mut got = vec![];
        while let Some(x) = rd.read_record().await? {
            got.push(x);
            if got.len() > recs.len() + 2 {
                break;
            }
        }
        rep.evaluations += 1;
        let same = got.len() == recs.len() && got.iter().zip(recs.iter()).all(|(a, b)| a.tree == b.tree && a.key == b.key && a.value == b.value);
        if !same {
            let sym = if got.len() < recs.len() { "early-end" } else if got.len() > recs.len() { "phantom-records" } else { "records-differ" };
            rep.violation(format!("snapshot-reader/{}", sym), json!({"value_lens": recs.iter().map(|x| x.value.len()).collect::<Vec<_>>(), "returned": got.len(), "expected": recs.len(), "file_len": flen}));
        } else {
            rep.shape(format!("snap/mode{}/{}", mode, if flen % 1024 == 0 { "len-on-1024" } else { "len-other" }));
        }
        std::fs::remove_file(&path).ok();
    }
    Ok(())
}

/// the transfer / backup file is a fifth consumer and the only one with its own WRITER in front of the codec: records go through
/// TransferWriter (prefix, header, one length-prefixed record per item) and come back through TransferReader (whole file in memory,
/// `new_with_data`) and TransferFileReader (positional reads). The sequence read must be the sequence written - same records, same
/// order - for every mix of sizes, incl. records of the size of an I/O block and of more than 2 MiB.
async fn transfer_roundtrip(r: &mut StdRng, n: u64, dir: &str, big: bool, rep: &mut Report) -> anyhow::Result<()> {
    use rnacos::common::constant::{CONFIG_TREE_NAME, USER_TREE_NAME};
    use rnacos::transfer::model::{TransferHeaderDto, TransferRecordDto};
    use rnacos::transfer::reader::{TransferFileReader, TransferReader};
    use rnacos::transfer::writer::TransferWriter;
    for si in 0..n {
        let path = format!("{}/transfer_{}", dir, si);
        std::fs::remove_file(&path).ok();
        let mut header = TransferHeaderDto::new(1);
        let tables = [CONFIG_TREE_NAME.clone(), USER_TREE_NAME.clone()];
        for t in &tables {
            header.add_name(t.clone());
        }
        let ids: Vec<u32> = tables.iter().map(|t| *header.name_to_id.get(t).unwrap_or(&0)).collect();
        let mut w = TransferWriter::init(&path, header).await?;
        let cnt = r.gen_range(1..60);
        let mode = r.gen_range(0..5);
        let mut recs: Vec<TransferRecordDto> = vec![];
        let mut classes: std::collections::BTreeSet<&'static str> = std::collections::BTreeSet::new();
        for i in 0..cnt {
            let vlen = match mode {
                0 => r.gen_range(0..300),
                1 => *pick(r, &[900usize, 1000, 1005, 1008, 1012, 1016, 2030, 4090, 8190, 16380]),
                2 => *pick(r, &[10usize, 200, 5_000, 32_760, 65_500, 65_530, 65_536, 65_540, 70_000, 131_072, 200_000]),
                3 => if r.gen_range(0..6) == 0 { r.gen_range(60_000..400_000) } else { r.gen_range(0..3_000) },
                _ => if big && i == cnt / 2 { r.gen_range(2_100_000..2_600_000) } else { r.gen_range(0..20_000) },
            };
            classes.insert(size_class(vlen));
            let t = (i as usize) % 2;
            // both spellings a writer may use: table id from the header, or table name with id 0
            let by_id = r.gen_range(0..2) == 0;
            let rec = TransferRecordDto { table_name: if by_id { None } else { Some(tables[t].clone()) }, table_id: if by_id { ids[t] } else { 0 }, key: format!("k{}-{}", si, i).into_bytes(), value: body(r, vlen) };
            w.write_record(&rec).await?;
            recs.push(rec);
        }
        w.flush().await?;
        drop(w);
        let want: Vec<(String, Vec<u8>, usize, u64)> = recs.iter().enumerate().map(|(i, x)| (tables[i % 2].as_ref().clone(), x.key.clone(), x.value.len(), crc(&x.value))).collect();
        let data = std::fs::read(&path)?;
        let flen = data.len();
        let got_mem: Result<anyhow::Result<Vec<(String, Vec<u8>, usize, u64)>>, String> = guarded(|| {
            let mut rd = TransferReader::new(data)?;
            let mut got = vec![];
            while let Some(x) = rd.read_record()? {
                got.push((x.table_name.as_ref().clone(), x.key.to_vec(), x.value.len(), crc(&x.value)));
                if got.len() > want.len() + 2 {
                    break;
                }
            }
            Ok(got)
        });
        rep.evaluations += 1;
        let witness = json!({"value_lens": recs.iter().map(|x| x.value.len()).collect::<Vec<_>>(), "file_len": flen, "mode": mode});
        let mut ok = true;
        match got_mem {
            Ok(Ok(got)) => {
                if got != want {
                    ok = false;
                    let mut a: Vec<&Vec<u8>> = got.iter().map(|x| &x.1).collect();
                    let mut b: Vec<&Vec<u8>> = want.iter().map(|x| &x.1).collect();
                    a.sort();
                    b.sort();
                    let sym = if got.len() < want.len() { "early-end" } else if got.len() > want.len() { "phantom-records" } else if a == b { "order-differs" } else { "records-differ" };
                    rep.violation(format!("transfer-reader/{}", sym), json!({"case": witness, "returned": got.len(), "expected": want.len(),
                        "first_keys_returned": got.iter().take(8).map(|x| String::from_utf8_lossy(&x.1).to_string()).collect::<Vec<_>>()}));
                }
            }
            Ok(Err(e)) => {
                ok = false;
                rep.violation("transfer-reader/error".to_string(), json!({"case": witness, "error": e.to_string()}));
            }
            Err(p) => {
                ok = false;
                rep.violation("transfer-reader/panic".to_string(), json!({"case": witness, "panic": p}));
            }
        }
        // positional reader: same number of records, same raw bytes order (compared through the record count and key order)
        let got_file = guarded_async(async {
            let mut rd = TransferFileReader::new(&path).await?;
            let mut n_rec = 0usize;
            while let Ok(Some(v)) = rd.read_record_vec().await {
                if v.is_empty() {
                    break;
                }
                n_rec += 1;
                if n_rec > want.len() + 2 {
                    break;
                }
            }
            Ok::<usize, anyhow::Error>(n_rec)
        })
        .await;
        rep.evaluations += 1;
        match got_file {
            Ok(Ok(n_rec)) if n_rec == want.len() => {}
            Ok(Ok(n_rec)) => {
                ok = false;
                rep.violation(format!("transfer-file-reader/{}", if n_rec < want.len() { "early-end" } else { "phantom-records" }), json!({"case": witness, "returned": n_rec, "expected": want.len()}));
            }
            Ok(Err(e)) => {
                ok = false;
                rep.violation("transfer-file-reader/error".to_string(), json!({"case": witness, "error": e.to_string()}));
            }
            Err(p) => {
                ok = false;
                rep.violation("transfer-file-reader/panic".to_string(), json!({"case": witness, "panic": p}));
            }
        }
        if ok {
            rep.shape(format!("transfer/mode{}/{}", mode, classes.iter().copied().collect::<Vec<_>>().join("+")));
        }
        std::fs::remove_file(&path).ok();
    }
    Ok(())
}

fn crc(v: &[u8]) -> u64 {
    // cheap order-sensitive digest of a value (the values are megabytes in the big lane)
    let mut h: u64 = 0xcbf29ce484222325;
    for b in v {
        h ^= *b as u64;
        h = h.wrapping_mul(0x100000001b3);
    }
    h
}

/// LogInnerManager: write records whose encoded end lands on/near the 1024-byte scan chunk, re-init, compare
async fn log_roundtrip(r: &mut StdRng, n: u64, dir: &str, rep: &mut Report) -> anyhow::Result<()> {
    for si in 0..n {
        let path = format!("{}/log_{}", dir, si);
        let mut m = LogInnerManager::init(path.clone(), 0, 0, 0).await?;
        let cnt = r.gen_range(1..60u64);
        let aligned = si % 2 == 0;
        let mut pos = 0usize; // bytes since data area start
        let mut recs = vec![];
        for i in 0..cnt {
            let want_total = if aligned && (i + 1 == cnt || r.gen_bool(0.1)) {
                // make this record end exactly on a multiple of 1024 from the scan start
                let t = 1024 - (pos % 1024);
                if t < 12 { t + 1024 } else { t }
            } else {
                r.gen_range(12..700)
            };
            // record = varint(total) | 0x08 idx | 0x10 term | 0x1a varint(vlen) value ; find vlen by search
            let mut vlen = want_total.saturating_sub(9);
            let mut rec;
            let mut tries = 0;
            loop {
                rec = LogRecordDto { index: i, term: 1 + (i / 7), value: body(r, vlen) };
                let l = rec_encoded_len(&rec);
                tries += 1;
                if l == want_total || !aligned || tries > 12 { break; }
                if l > want_total { if vlen == 0 { break; } vlen -= 1; } else { vlen += 1; }
            }
            pos += rec_encoded_len(&rec);
            m.write(&rec).await?;
            recs.push(rec);
        }
        drop(m);
        let mut m2 = LogInnerManager::init(path.clone(), 0, 0, 0).await?;
        rep.evaluations += 1;
        let end = m2.get_end_index();
        let on_boundary = pos % 1024 == 0;
        if end != cnt {
            rep.violation(format!("log-reopen/end-index-{}/{}", if end < cnt { "short" } else { "long" }, if on_boundary { "tail-ends-on-1024" } else { "other" }),
                json!({"written": cnt, "reopened_end": end, "data_bytes": pos, "value_lens": recs.iter().map(|x| x.value.len()).collect::<Vec<_>>() }));
        } else {
            let got = m2.read_records(0, cnt).await?;
            let same = got.len() == recs.len() && got.iter().zip(recs.iter()).all(|(a, b)| a.index == b.index && a.term == b.term && a.value == b.value);
            if !same {
                rep.violation("log-reopen/records-differ".to_string(), json!({"written": cnt, "read": got.len()}));
            } else {
                rep.shape(format!("log/{}", if on_boundary { "tail-ends-on-1024" } else { "other" }));
            }
        }
        std::fs::remove_file(&path).ok();
    }
    Ok(())
}

fn rec_encoded_len(rec: &LogRecordDto) -> usize {
    use quick_protobuf_len::*;
    record_len(rec)
}

mod quick_protobuf_len {
    use super::*;
    pub fn record_len(rec: &LogRecordDto) -> usize {
        // LogRecord { index=1 varint, term=2 varint, value=3 bytes }, proto3 default-skipping
        let mut l = 0;
        if rec.index != 0 { l += 1 + ref_encode(rec.index).len(); }
        if rec.term != 0 { l += 1 + ref_encode(rec.term).len(); }
        if !rec.value.is_empty() { l += 1 + ref_encode(rec.value.len() as u64).len() + rec.value.len(); }
        ref_encode(l as u64).len() + l
    }
}

pub fn run(args: &Args) -> anyhow::Result<()> {
    std::panic::set_hook(Box::new(|_| {}));   // panics of the code under test are caught and reported as observations
    let seed = args.u64("seed", 1);
    let scale = args.u64("scale", 1);
    let dir = args.str("dir", "/tmp/vh-c20");
    std::fs::create_dir_all(&dir)?;
    let mut rep = Report::default();
    let mut r = rng(seed);
    varints(&mut r, 20_000 * scale, &mut rep);
    bufreader(&mut r, 1500 * scale, &mut rep);
    bufreader_exhaustive(&mut r, 6 * scale, &mut rep);
    let big = args.has("big");
    let rt = tokio::runtime::Builder::new_current_thread().enable_all().build()?;
    rt.block_on(async {
        file_reader(&mut r, 60 * scale, &dir, big, &mut rep).await?;
        snapshot_roundtrip(&mut r, 60 * scale, &dir, &mut rep).await?;
        log_roundtrip(&mut r, 30 * scale, &dir, &mut rep).await?;
        instance_meta_repo(&mut r, 6 * scale, &dir, &mut rep).await?;
        transfer_roundtrip(&mut r, 40 * scale, &dir, big, &mut rep).await?;
        Ok::<(), anyhow::Error>(())
    })?;
    rep.write(args)
}
