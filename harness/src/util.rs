use rand::rngs::StdRng;
use rand::{Rng, SeedableRng};
use serde_json::{json, Value};
use std::collections::{BTreeMap, BTreeSet, HashMap};

pub struct Args {
    map: HashMap<String, String>,
}

impl Args {
    pub fn parse(argv: &[String]) -> Self {
        let mut map = HashMap::new();
        let mut i = 0;
        while i < argv.len() {
            let k = argv[i].trim_start_matches("--").to_string();
            if i + 1 < argv.len() && !argv[i + 1].starts_with("--") {
                map.insert(k, argv[i + 1].clone());
                i += 2;
            } else {
                map.insert(k, "1".to_string());
                i += 1;
            }
        }
        Self { map }
    }
    pub fn get(&self, k: &str) -> Option<&str> {
        self.map.get(k).map(|s| s.as_str())
    }
    pub fn str(&self, k: &str, d: &str) -> String {
        self.get(k).unwrap_or(d).to_string()
    }
    pub fn u64(&self, k: &str, d: u64) -> u64 {
        self.get(k).and_then(|s| s.parse().ok()).unwrap_or(d)
    }
    pub fn has(&self, k: &str) -> bool {
        self.map.contains_key(k)
    }
}

pub fn rng(seed: u64) -> StdRng {
    StdRng::seed_from_u64(seed)
}

pub fn pick<'a, T>(r: &mut StdRng, xs: &'a [T]) -> &'a T {
    &xs[r.gen_range(0..xs.len())]
}

/// What one harness process observed; merged by the python front-end.
#[derive(Default)]
pub struct Report {
    pub evaluations: u64,
    /// shape signature -> how many non-trivial cases had it
    pub shapes: BTreeMap<String, u64>,
    pub samples: Vec<Value>,
    /// violations, de-duplicated by signature (first witness kept, count kept)
    pub violations: BTreeMap<String, (u64, Value)>,
    pub inconclusive: Vec<String>,
    pub counters: BTreeMap<String, u64>,
    pub notes: BTreeSet<String>,
}

impl Report {
    pub fn shape(&mut self, s: impl Into<String>) {
        *self.shapes.entry(s.into()).or_insert(0) += 1;
    }
    pub fn count(&mut self, k: &str, n: u64) {
        *self.counters.entry(k.to_string()).or_insert(0) += n;
    }
    pub fn sample(&mut self, v: Value, max: usize) {
        if self.samples.len() < max {
            self.samples.push(v);
        }
    }
    pub fn violation(&mut self, sig: impl Into<String>, witness: Value) {
        let e = self.violations.entry(sig.into()).or_insert((0, witness));
        e.0 += 1;
    }
    pub fn to_json(&self) -> Value {
        json!({
            "evaluations": self.evaluations,
            "shapes": self.shapes,
            "samples": self.samples,
            "violations": self.violations.iter().map(|(k,(n,w))| json!({"signature":k,"count":n,"witness":w})).collect::<Vec<_>>(),
            "inconclusive": self.inconclusive,
            "counters": self.counters,
            "notes": self.notes,
        })
    }
    pub fn write(&self, args: &Args) -> anyhow::Result<()> {
        let s = serde_json::to_string(&self.to_json())?;
        if let Some(p) = args.get("out") {
            std::fs::write(p, s)?;
        } else {
            println!("{}", s);
        }
        Ok(())
    }
}

pub fn hex(b: &[u8]) -> String {
    b.iter().map(|x| format!("{:02x}", x)).collect()
}

pub fn now_ms() -> u64 {
    use std::time::{SystemTime, UNIX_EPOCH};
    SystemTime::now()
        .duration_since(UNIX_EPOCH)
        .unwrap()
        .as_millis() as u64
}
