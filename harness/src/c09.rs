//! C09 — config store: last write wins, md5 matches content, listings match store (DESIGN.md section 3/C09).
//!
//! `vh c09 --seed S --shard i --shards n --out f --dir d --histories H [--ops N] [--only <history seed>] [--verbose]`
//!
//! Rig: a stand-alone `ConfigActor` per history (fresh state) with the `NamespaceActor` of one in-process host node
//! injected through a `BeanFactory` (its constructor is crate-private, so it is taken from `config_factory`), all on
//! one actix system. Operations are the messages the state machine really receives (`ConfigRaftCmd::{ConfigAdd,
//! ConfigRemove, SetFullValue}`, `ConfigCmd::{SetTmpValue, SetFullValue}`); observations are `ConfigCmd::{GET,
//! QueryPageInfo, QueryHistoryPageInfo}`. The oracle is the reference model below (written from the property, not
//! from the code); md5 is recomputed with the md5 crate.
use crate::util::{rng, Args, Report};
use actix::prelude::*;
use bean_factory::{BeanDefinition, BeanFactory};
use rand::rngs::StdRng;
use rand::Rng;
use rnacos::common::AppSysConfig;
use rnacos::config::config_index::ConfigQueryParam;
use rnacos::config::config_type::ConfigType;
use rnacos::config::core::{ConfigActor, ConfigCmd, ConfigInfoDto, ConfigKey, ConfigResult};
use rnacos::config::dal::ConfigHistoryParam;
use rnacos::config::model::{ConfigHistoryItemDO, ConfigRaftCmd, ConfigValueDO};
use rnacos::namespace::NamespaceActor;
use rnacos::starter::{build_share_data, config_factory};
use serde_json::{json, Value};
use std::collections::{BTreeSet, HashMap};
use std::sync::Arc;

pub const TENANTS: [&str; 3] = ["", "dev", "t-租户:1"];
pub const GROUPS: [&str; 3] = ["DEFAULT_GROUP", "grp-1", "GRP.测试"];
pub const DATA_IDS: [&str; 6] = ["app.yaml", "app-dev.yaml", "db.properties", "App.YAML", "路由:rules.json", "a"];
const LIKE_GROUP: [&str; 5] = ["GR", "grp", "测", "_", "nomatch"];
const LIKE_DATA: [&str; 7] = ["app", "yaml", ".", "a", "YAML", "rules", "zzz"];
const PAGE_SIZES: [usize; 4] = [1, 2, 7, 100];
const BOUND: usize = 100;

fn md5_hex(s: &str) -> String {
    format!("{:x}", md5::compute(s.as_bytes()))
}

fn norm_type(v: Option<&str>) -> String {
    ConfigType::new_by_value(v.unwrap_or("")).get_value().to_string()
}

fn key_parts(k: usize) -> (&'static str, &'static str, &'static str) {
    let t = k / (GROUPS.len() * DATA_IDS.len());
    let g = (k / DATA_IDS.len()) % GROUPS.len();
    let d = k % DATA_IDS.len();
    (TENANTS[t], GROUPS[g], DATA_IDS[d])
}
const NKEYS: usize = 54;

fn key_name(k: usize) -> String {
    let (t, g, d) = key_parts(k);
    format!("{}|{}|{}", t, g, d)
}

fn brief(s: &str) -> Value {
    if s.chars().count() <= 40 {
        json!(s)
    } else {
        json!({"len": s.len(), "md5": md5_hex(s), "head": s.chars().take(24).collect::<String>()})
    }
}

// ------------------------------------------------------------------------------------------------ operations
#[derive(Clone)]
pub enum Op {
    Add { k: usize, content: Arc<String>, ctype: Option<String>, desc: Option<String>, long_key: bool },
    Remove { k: usize },
    /// full-value import; `raft` = ConfigRaftCmd::SetFullValue (ClientRequest::ConfigFullValue), else ConfigCmd::SetFullValue (snapshot load)
    Import { k: usize, content: Arc<String>, hist: Vec<Arc<String>>, ctype: Option<String>, desc: Option<String>, raft: bool },
    Tmp { k: usize, content: Arc<String> },
    Sweep,
}

impl Op {
    fn key(&self) -> Option<usize> {
        match self {
            Op::Add { k, .. } | Op::Remove { k } | Op::Import { k, .. } | Op::Tmp { k, .. } => Some(*k),
            Op::Sweep => None,
        }
    }
    fn to_json(&self) -> Value {
        match self {
            Op::Add { k, content, ctype, desc, long_key } => {
                json!({"op": "ConfigAdd", "key": key_name(*k), "content": brief(content), "type": ctype, "desc": desc, "explicit_empty_tenant_in_key": long_key})
            }
            Op::Remove { k } => json!({"op": "ConfigRemove", "key": key_name(*k)}),
            Op::Import { k, content, hist, ctype, desc, raft } => {
                json!({"op": if *raft {"ConfigRaftCmd::SetFullValue"} else {"ConfigCmd::SetFullValue"}, "key": key_name(*k), "content": brief(content), "history_len": hist.len(),
                       "history_tail": hist.iter().rev().take(3).map(|h| brief(h)).collect::<Vec<_>>(), "type": ctype, "desc": desc})
            }
            Op::Tmp { k, content } => json!({"op": "SetTmpValue", "key": key_name(*k), "content": brief(content)}),
            Op::Sweep => json!({"op": "sweep"}),
        }
    }
}

struct Gen {
    r: StdRng,
    n: u64,
    last: Vec<Option<Arc<String>>>,
}

impl Gen {
    fn content(&mut self, k: usize) -> (Arc<String>, &'static str) {
        self.n += 1;
        let c = self.r.gen_range(0..100);
        if c < 22 {
            if let Some(l) = &self.last[k] {
                return (l.clone(), "same");
            }
        }
        let (s, class) = if c < 27 {
            (String::new(), "empty")
        } else if c < 31 {
            let unit = format!("line-{}-{};\n", self.n, self.r.gen::<u32>());
            let target = self.r.gen_range(20_000..90_000usize);
            (unit.repeat(target / unit.len() + 1), "large")
        } else if c < 45 {
            (format!("配置-{}\n键=值 ünïcödé 🚀 {}", self.n, self.r.gen::<u16>()), "non-ascii")
        } else {
            (format!("v{}: {}\nkey.{}=value & more = <x> \"q\" \t end", self.n, self.r.gen::<u32>(), self.n % 7), "new")
        };
        (Arc::new(s), class)
    }
    fn ctype(&mut self) -> Option<String> {
        const T: [&str; 12] = ["yaml", "json", "properties", "text", "YAML", "yml", "xml", "html", "toml", "Json", "unknown-x", ""];
        if self.r.gen_bool(0.5) {
            None
        } else {
            Some(T[self.r.gen_range(0..T.len())].to_string())
        }
    }
    fn desc(&mut self) -> Option<String> {
        match self.r.gen_range(0..10) {
            0..=5 => None,
            6 => Some(String::new()),
            7 => Some(format!("说明 {}", self.n)),
            _ => Some(format!("desc {}", self.n)),
        }
    }
}

/// one seeded history: a list of concrete operations (contents resolved at generation time)
pub fn gen_history(seed: u64, nops: usize) -> (Vec<Op>, &'static str) {
    let mut g = Gen { r: rng(seed), n: 0, last: vec![None; NKEYS] };
    let style = match g.r.gen_range(0..10) {
        0..=3 => "broad",
        4..=6 => "hot",
        7..=8 => "few-keys",
        _ => "one-tenant",
    };
    // key pool of this history
    let pool: Vec<usize> = match style {
        "broad" => (0..NKEYS).collect(),
        "hot" => {
            let mut p: Vec<usize> = (0..NKEYS).filter(|_| g.r.gen_bool(0.3)).collect();
            p.push(g.r.gen_range(0..NKEYS));
            p
        }
        "few-keys" => (0..g.r.gen_range(2..6)).map(|_| g.r.gen_range(0..NKEYS)).collect(),
        _ => {
            let t = g.r.gen_range(0..3);
            (t * 18..t * 18 + 18).collect()
        }
    };
    let hot: Vec<usize> = (0..g.r.gen_range(1..3)).map(|_| pool[g.r.gen_range(0..pool.len())]).collect();
    let nops = if style == "hot" { nops.max(150) + g.r.gen_range(0..120) } else { nops / 2 + g.r.gen_range(0..nops) };
    let mut ops = vec![];
    let mut since_sweep = 0;
    for _ in 0..nops {
        let k = if style == "hot" && g.r.gen_bool(0.85) {
            hot[g.r.gen_range(0..hot.len())]
        } else {
            pool[g.r.gen_range(0..pool.len())]
        };
        let c = g.r.gen_range(0..100);
        let (p_rm, p_imp, p_tmp) = if style == "hot" { (2, 2, 5) } else { (14, 8, 10) };
        let op = if c < p_rm {
            g.last[k] = None;
            Op::Remove { k }
        } else if c < p_rm + p_imp {
            let (content, _) = g.content(k);
            let n = match g.r.gen_range(0..6) {
                0 => 0,
                1 => 1,
                2 => BOUND,
                3 => BOUND - 1,
                _ => g.r.gen_range(2..40),
            };
            let mut hist: Vec<Arc<String>> = (0..n).map(|i| Arc::new(format!("imported-{}-{}", g.n, i))).collect();
            if n > 0 && g.r.gen_bool(0.85) {
                let l = hist.len();
                hist[l - 1] = content.clone();
            }
            g.last[k] = Some(content.clone());
            Op::Import { k, content, hist, ctype: g.ctype(), desc: g.desc(), raft: g.r.gen_bool(0.6) }
        } else if c < p_rm + p_imp + p_tmp {
            let (content, _) = g.content(k);
            // a routed write: the temporary value is normally followed by the publish of the same content
            Op::Tmp { k, content }
        } else {
            let (content, _) = g.content(k);
            g.last[k] = Some(content.clone());
            Op::Add { k, content, ctype: g.ctype(), desc: g.desc(), long_key: g.r.gen_bool(0.1) }
        };
        // after a temporary value: usually (70 %) the publish that it announces follows at once
        let follow = if let Op::Tmp { k, content } = &op {
            if g.r.gen_bool(0.7) {
                Some((*k, content.clone()))
            } else {
                None
            }
        } else {
            None
        };
        ops.push(op);
        if let Some((k, content)) = follow {
            g.last[k] = Some(content.clone());
            ops.push(Op::Add { k, content, ctype: g.ctype(), desc: g.desc(), long_key: false });
        }
        since_sweep += 1;
        if since_sweep >= 20 {
            ops.push(Op::Sweep);
            since_sweep = 0;
        }
    }
    ops.push(Op::Sweep);
    (ops, style)
}

// ------------------------------------------------------------------------------------------------ reference model
#[derive(Clone)]
struct Applied {
    content: Arc<String>,
    /// acceptable normalised types / descriptions ("" = none); collapsed to the observed one at every read
    ctype: Vec<String>,
    desc: Vec<String>,
    /// acceptable histories, oldest first (more than one only where the property is silent)
    hists: Vec<Vec<Arc<String>>>,
    trimmed: bool,
}

#[derive(Clone)]
struct MKey {
    applied: Option<Applied>,
    tmp: Option<Arc<String>>,
    lineage: &'static str,
}

fn push_bounded(h: &mut Vec<Arc<String>>, c: Arc<String>) -> bool {
    h.push(c);
    if h.len() > BOUND {
        let cut = h.len() - BOUND;
        h.drain(0..cut);
        true
    } else {
        false
    }
}

fn add_alt(hists: &mut Vec<Vec<Arc<String>>>, h: Vec<Arc<String>>) {
    if !hists.iter().any(|x| x.len() == h.len() && x.iter().zip(h.iter()).all(|(a, b)| a == b)) {
        hists.push(h);
    }
}

#[derive(Default)]
struct Model {
    keys: HashMap<usize, MKey>,
    removed: BTreeSet<usize>,
    old_hist: HashMap<usize, Vec<Arc<String>>>,
    last_class: HashMap<usize, &'static str>,
}

impl Model {
    /// returns the class of the operation (for shapes / signatures)
    fn apply(&mut self, op: &Op) -> &'static str {
        let class: &'static str = match op {
            Op::Add { k, content, ctype, desc, .. } => {
                let given_t = ctype.as_deref().map(|t| norm_type(Some(t)));
                let given_d = desc.clone();
                match self.keys.get_mut(k) {
                    None => {
                        let mut hists = vec![vec![content.clone()]];
                        if let Some(old) = self.old_hist.get(k) {
                            // the property does not say whether a re-created key continues the old history
                            let mut h = old.clone();
                            push_bounded(&mut h, content.clone());
                            add_alt(&mut hists, h);
                        }
                        let lineage = if self.removed.contains(k) { "recreated-after-remove" } else { "created-by-publish" };
                        self.keys.insert(*k, MKey {
                            applied: Some(Applied { content: content.clone(), ctype: vec![given_t.unwrap_or_else(|| norm_type(None))], desc: vec![given_d.unwrap_or_default()], hists, trimmed: false }),
                            tmp: None,
                            lineage,
                        });
                        "add-first"
                    }
                    Some(mk) => {
                        let tmp = mk.tmp.take();
                        match &mut mk.applied {
                            Some(a) => {
                                match given_t {
                                    Some(t) => a.ctype = vec![t],
                                    None => {
                                        let d = norm_type(None);
                                        if !a.ctype.contains(&d) {
                                            a.ctype.push(d);
                                        }
                                    }
                                }
                                match given_d {
                                    Some(d) => a.desc = vec![d],
                                    None => {
                                        if !a.desc.contains(&String::new()) {
                                            a.desc.push(String::new());
                                        }
                                    }
                                }
                                let changed = a.content.as_str() != content.as_str();
                                let cls = if changed {
                                    for h in a.hists.iter_mut() {
                                        if push_bounded(h, content.clone()) {
                                            a.trimmed = true;
                                        }
                                    }
                                    if tmp.is_some() { "add-new-over-tmp" } else { "add-new" }
                                } else if tmp.is_some() {
                                    // same as the last applied content, but a temporary value was shown in between:
                                    // an entry is neither demanded nor forbidden
                                    let mut extra = vec![];
                                    for h in a.hists.iter() {
                                        let mut h2 = h.clone();
                                        push_bounded(&mut h2, content.clone());
                                        extra.push(h2);
                                    }
                                    for h in extra {
                                        add_alt(&mut a.hists, h);
                                    }
                                    "add-same-over-tmp"
                                } else {
                                    "add-same"
                                };
                                a.content = content.clone();
                                cls
                            }
                            None => {
                                mk.applied = Some(Applied { content: content.clone(), ctype: vec![given_t.unwrap_or_else(|| norm_type(None))], desc: vec![given_d.unwrap_or_default()], hists: vec![vec![content.clone()]], trimmed: false });
                                mk.lineage = "first-seen-as-tmp-value";
                                "add-first-over-tmp"
                            }
                        }
                    }
                }
            }
            Op::Remove { k } => {
                let had = self.keys.remove(k);
                self.removed.insert(*k);
                match had {
                    Some(mk) => {
                        if let Some(a) = mk.applied {
                            self.old_hist.insert(*k, a.hists[0].clone());
                            if mk.tmp.is_some() { "remove-with-tmp" } else { "remove" }
                        } else {
                            "remove-tmp-only"
                        }
                    }
                    None => "remove-absent",
                }
            }
            Op::Import { k, content, hist, ctype, desc, .. } => {
                let existed = self.keys.contains_key(k);
                let lineage = match self.keys.get(k) {
                    Some(mk) if mk.applied.is_some() => mk.lineage,
                    Some(_) => "first-seen-as-tmp-value-then-import",
                    None => if self.removed.contains(k) { "reimported-after-remove" } else { "created-by-import" },
                };
                self.keys.insert(*k, MKey {
                    applied: Some(Applied { content: content.clone(), ctype: vec![norm_type(ctype.as_deref())], desc: vec![desc.clone().unwrap_or_default()], hists: vec![hist.clone()], trimmed: false }),
                    tmp: None,
                    lineage,
                });
                if existed { "import-over" } else { "import-first" }
            }
            Op::Tmp { k, content } => match self.keys.get_mut(k) {
                Some(mk) => {
                    mk.tmp = Some(content.clone());
                    if mk.applied.is_some() { "tmp-over" } else { "tmp-again" }
                }
                None => {
                    self.keys.insert(*k, MKey { applied: None, tmp: Some(content.clone()), lineage: "tmp-only" });
                    "tmp-first"
                }
            },
            Op::Sweep => "sweep",
        };
        if let Some(k) = op.key() {
            self.last_class.insert(k, class);
        }
        class
    }
}

// ------------------------------------------------------------------------------------------------ listing filters
#[derive(Clone, Debug)]
pub struct Filter {
    tenant: Option<usize>,
    group: Option<String>,
    data_id: Option<String>,
    like_group: Option<String>,
    like_data_id: Option<String>,
    query_context: bool,
    /// which endpoint family produces this shape ("" = none does: diagnostics only)
    family: &'static str,
}

impl Filter {
    fn matches(&self, k: usize) -> bool {
        let (t, g, d) = key_parts(k);
        if let Some(ti) = self.tenant {
            if TENANTS[ti] != t {
                return false;
            }
        }
        let mg = match (&self.group, &self.like_group) {
            (Some(x), _) => x.is_empty() || x == g,
            (None, Some(p)) => p.is_empty() || g.contains(p.as_str()),
            (None, None) => true,
        };
        let md = match (&self.data_id, &self.like_data_id) {
            (Some(x), _) => x.is_empty() || x == d,
            (None, Some(p)) => p.is_empty() || d.contains(p.as_str()),
            (None, None) => true,
        };
        mg && md
    }
    fn shape(&self) -> String {
        fn cls(e: &Option<String>, l: &Option<String>) -> &'static str {
            match (e, l) {
                (Some(x), _) if x.is_empty() => "exact-empty",
                (Some(_), _) => "exact",
                (None, Some(x)) if x.is_empty() => "like-empty",
                (None, Some(_)) => "like",
                (None, None) => "none",
            }
        }
        format!("{}/g={}/d={}", if self.family.is_empty() { "unreachable" } else { self.family }, cls(&self.group, &self.like_group), cls(&self.data_id, &self.like_data_id))
    }
    fn to_param(&self, offset: usize, limit: usize) -> ConfigQueryParam {
        ConfigQueryParam {
            tenant: self.tenant.map(|t| Arc::new(TENANTS[t].to_string())),
            group: self.group.clone().map(Arc::new),
            data_id: self.data_id.clone().map(Arc::new),
            like_group: self.like_group.clone(),
            like_data_id: self.like_data_id.clone(),
            namespace_privilege: Default::default(),
            query_context: self.query_context,
            offset,
            limit,
        }
    }
    fn to_json(&self) -> Value {
        json!({"tenant": self.tenant.map(|t| TENANTS[t]), "group": self.group, "data_id": self.data_id, "like_group": self.like_group,
               "like_data_id": self.like_data_id, "query_context": self.query_context, "family": self.family})
    }
}

/// every filter shape an endpoint can produce for one tenant (see openapi/config/api.rs build_search_param /
/// build_like_search_param, console/model/config_model.rs to_param): tenant always exact
fn endpoint_filters(t: usize) -> Vec<Filter> {
    let mut v = vec![];
    let mut ex_g: Vec<Option<String>> = vec![None, Some(String::new()), Some("nosuchgroup".into())];
    ex_g.extend(GROUPS.iter().map(|g| Some(g.to_string())));
    let mut ex_d: Vec<Option<String>> = vec![None, Some(String::new()), Some("nosuch".into())];
    ex_d.extend(DATA_IDS.iter().map(|d| Some(d.to_string())));
    for g in &ex_g {
        for d in &ex_d {
            v.push(Filter { tenant: Some(t), group: g.clone(), data_id: d.clone(), like_group: None, like_data_id: None, query_context: true, family: "openapi-accurate" });
        }
    }
    let mut lk_g: Vec<Option<String>> = vec![None, Some(String::new())];
    lk_g.extend(LIKE_GROUP.iter().map(|g| Some(g.to_string())));
    let mut lk_d: Vec<Option<String>> = vec![None, Some(String::new())];
    lk_d.extend(LIKE_DATA.iter().map(|d| Some(d.to_string())));
    for g in &lk_g {
        for d in &lk_d {
            v.push(Filter { tenant: Some(t), group: None, data_id: None, like_group: g.clone(), like_data_id: d.clone(), query_context: true, family: "openapi-blur" });
            v.push(Filter { tenant: Some(t), group: None, data_id: None, like_group: g.clone(), like_data_id: d.clone(), query_context: false, family: "console-list" });
        }
    }
    v
}

/// shapes the type allows but no endpoint produces
fn unreachable_filters() -> Vec<Filter> {
    let mut v = vec![Filter { tenant: None, group: None, data_id: None, like_group: None, like_data_id: None, query_context: true, family: "" }];
    v.push(Filter { tenant: None, group: None, data_id: None, like_group: Some("GR".into()), like_data_id: Some("a".into()), query_context: false, family: "" });
    for t in 0..3 {
        v.push(Filter { tenant: Some(t), group: Some(GROUPS[0].into()), data_id: None, like_group: None, like_data_id: Some("app".into()), query_context: true, family: "" });
        v.push(Filter { tenant: Some(t), group: None, data_id: Some(DATA_IDS[0].into()), like_group: Some("GR".into()), like_data_id: None, query_context: false, family: "" });
    }
    v
}

// ------------------------------------------------------------------------------------------------ executor
pub struct Viol {
    pub sig: String,
    pub op_index: usize,
    pub detail: Value,
}

pub struct Ctx {
    pub ns: Addr<NamespaceActor>,
}

struct Run<'a> {
    cfg: Addr<ConfigActor>,
    model: Model,
    rep: Option<&'a mut Report>,
    diag: Vec<(String, Value)>,
    r: StdRng,
    full_sweeps: bool,
    hist_id: u64,
    /// how the leader's clock stamps the publishes of this history: 0 = one millisecond apart, 1 = bursts of four in one
    /// millisecond, 2 = all in the same millisecond, 3 = a clock that jumps back now and then (leader change)
    clock: u64,
}

async fn new_config_actor(ctx: &Ctx) -> Addr<ConfigActor> {
    let cfg = ConfigActor::new().start();
    let factory = BeanFactory::new();
    factory.register(BeanDefinition::actor_from_obj(ctx.ns.clone()));
    factory.register(BeanDefinition::actor_with_inject_from_obj::<ConfigActor>(cfg.clone()));
    let _ = factory.init().await;
    cfg
}

impl<'a> Run<'a> {
    fn shape(&mut self, s: String) {
        if let Some(r) = self.rep.as_mut() {
            r.shape(s);
        }
    }
    fn count(&mut self, k: &str, n: u64) {
        if let Some(r) = self.rep.as_mut() {
            r.count(k, n);
            r.evaluations += n;
        }
    }

    /// the history order is the order of the publishes, whatever their time stamps are
    fn op_time(&self) -> i64 {
        let h = self.hist_id as i64;
        1_700_000_000_000
            + match self.clock {
                0 => h,
                1 => h / 4,
                2 => 0,
                _ => {
                    if (h / 5) % 2 == 1 {
                        h - 40
                    } else {
                        h
                    }
                }
            }
    }

    async fn send_op(&mut self, op: &Op) -> anyhow::Result<()> {
        match op {
            Op::Add { k, content, ctype, desc, long_key } => {
                let (t, g, d) = key_parts(*k);
                // the documented key grammar: dataId \x02 group [\x02 tenant]
                let key = if t.is_empty() && !*long_key { format!("{}\x02{}", d, g) } else { format!("{}\x02{}\x02{}", d, g, t) };
                self.hist_id += 1;
                let cmd = ConfigRaftCmd::ConfigAdd {
                    key,
                    value: content.clone(),
                    config_type: ctype.clone().map(Arc::new),
                    desc: desc.clone().map(Arc::new),
                    history_id: self.hist_id,
                    history_table_id: if self.hist_id % 3 == 0 { Some(self.hist_id + 100) } else { None },
                    op_time: self.op_time(),
                    op_user: Some(Arc::new("verif".to_string())),
                };
                self.cfg.send(cmd).await?.map(|_| ())
            }
            Op::Remove { k } => {
                let (t, g, d) = key_parts(*k);
                let key = if t.is_empty() { format!("{}\x02{}", d, g) } else { format!("{}\x02{}\x02{}", d, g, t) };
                self.cfg.send(ConfigRaftCmd::ConfigRemove { key }).await?.map(|_| ())
            }
            Op::Import { k, content, hist, ctype, desc, raft } => {
                let (t, g, d) = key_parts(*k);
                let mut items = vec![];
                for h in hist {
                    self.hist_id += 1;
                    items.push(ConfigHistoryItemDO { id: Some(self.hist_id), content: Some(h.to_string()), last_time: Some(self.op_time()), op_user: Some("importer".into()) });
                }
                let vdo = ConfigValueDO { content: Some(content.to_string()), histories: items, config_type: ctype.clone(), desc: desc.clone() };
                let key = ConfigKey::new(d, g, t);
                if *raft {
                    self.cfg.send(ConfigRaftCmd::SetFullValue { key, value: vdo.into(), last_id: Some(self.hist_id) }).await?.map(|_| ())
                } else {
                    self.cfg.send(ConfigCmd::SetFullValue(key, vdo.into())).await?.map(|_| ())
                }
            }
            Op::Tmp { k, content } => {
                let (t, g, d) = key_parts(*k);
                self.cfg.send(ConfigCmd::SetTmpValue(ConfigKey::new(d, g, t), content.clone())).await?.map(|_| ())
            }
            Op::Sweep => Ok(()),
        }
    }

    /// GET + full history of one key against the model
    async fn check_key(&mut self, k: usize, class: &str) -> anyhow::Result<Option<(String, Value)>> {
        let (t, g, d) = key_parts(k);
        let got = self.cfg.send(ConfigCmd::GET(ConfigKey::new(d, g, t))).await??;
        self.count("get_checks", 1);
        let mk = self.model.keys.get_mut(&k);
        match (mk, got) {
            (None, ConfigResult::Data { value, .. }) => {
                let sig = if self.model.removed.contains(&k) { "get/data-served-after-remove" } else { "get/data-served-for-never-written-key" };
                return Ok(Some((format!("{}/after-{}", sig, class), json!({"key": key_name(k), "served": brief(&value)}))));
            }
            (None, _) => {
                if self.model.removed.contains(&k) {
                    self.shape("get/not-found-after-remove".to_string());
                }
            }
            (Some(mk), ConfigResult::Data { value, md5, config_type, desc, .. }) => {
                let mut ok_contents: Vec<Arc<String>> = vec![];
                if let Some(t) = &mk.tmp {
                    ok_contents.push(t.clone());
                }
                if let Some(a) = &mk.applied {
                    ok_contents.push(a.content.clone());
                }
                if !ok_contents.iter().any(|c| c.as_str() == value.as_str()) {
                    return Ok(Some((format!("get/content-is-not-the-last-published/after-{}", class),
                        json!({"key": key_name(k), "served": brief(&value), "expected_one_of": ok_contents.iter().map(|c| brief(c)).collect::<Vec<_>>(), "lineage": mk.lineage}))));
                }
                let want_md5 = md5_hex(&value);
                if md5.as_str() != want_md5 {
                    return Ok(Some((format!("get/md5-does-not-match-content/after-{}", class),
                        json!({"key": key_name(k), "served_md5": md5.as_str(), "md5_of_served_content": want_md5, "content": brief(&value), "tmp_pending": mk.tmp.is_some()}))));
                }
                if let Some(a) = mk.applied.as_mut() {
                    let at = norm_type(config_type.as_ref().map(|x| x.as_str()));
                    if !a.ctype.contains(&at) {
                        return Ok(Some((format!("get/type-is-not-the-last-published/after-{}", class),
                            json!({"key": key_name(k), "served_type": config_type.as_ref().map(|x| x.as_str()), "normalised": at, "acceptable": a.ctype}))));
                    }
                    a.ctype = vec![at];
                    let ad = desc.as_ref().map(|x| x.to_string()).unwrap_or_default();
                    if !a.desc.contains(&ad) {
                        return Ok(Some((format!("get/desc-is-not-the-last-published/after-{}", class),
                            json!({"key": key_name(k), "served_desc": ad, "acceptable": a.desc}))));
                    }
                    a.desc = vec![ad];
                }
            }
            (Some(mk), _) => {
                if mk.applied.is_some() {
                    return Ok(Some((format!("get/not-found-although-published/after-{}", class), json!({"key": key_name(k), "lineage": mk.lineage}))));
                }
                // temporary value only: the property is silent
            }
        }
        // ---- history (only where the model has an applied value; after a remove the property is silent)
        let has_applied = self.model.keys.get(&k).map(|m| m.applied.is_some()).unwrap_or(false);
        if has_applied {
            let (total, list) = self.history_page(k, Some(0), Some(100_000)).await?;
            let mk = self.model.keys.get_mut(&k).unwrap();
            let tmp_pending = mk.tmp.is_some();
            let a = mk.applied.as_mut().unwrap();
            let newest_first: Vec<&str> = list.iter().map(|s| s.as_str()).collect();
            let hit = a.hists.iter().position(|h| h.len() == newest_first.len() && h.iter().rev().zip(newest_first.iter()).all(|(x, y)| x.as_str() == *y));
            match hit {
                Some(i) => {
                    if a.hists.len() > 1 {
                        let h = a.hists[i].clone();
                        a.hists = vec![h];
                    }
                    if total != list.len() {
                        return Ok(Some(("history/total-differs-from-entries".to_string(), json!({"key": key_name(k), "total": total, "entries": list.len()}))));
                    }
                    let (len, trimmed) = (a.hists[0].len(), a.trimmed);
                    if trimmed && len == BOUND {
                        self.shape("history/bounded-to-100-after-more-publishes".to_string());
                    }
                    if class == "add-same" {
                        self.shape("history/unchanged-content-adds-no-entry".to_string());
                    }
                }
                None => {
                    let want = &a.hists[0];
                    let want_nf: Vec<&str> = want.iter().rev().map(|x| x.as_str()).collect();
                    let sym = if newest_first.len() > BOUND {
                        "more-than-100-entries".to_string()
                    } else if newest_first.len() == want_nf.len() && newest_first.iter().rev().zip(want_nf.iter()).all(|(x, y)| x == y) && want_nf.len() > 1 {
                        "not-newest-first".to_string()
                    } else if newest_first.len() == want_nf.len() + 1 && newest_first[1..] == want_nf[..] {
                        format!("extra-entry/after-{}", class)
                    } else if newest_first.len() + 1 == want_nf.len() && newest_first[..] == want_nf[1..] {
                        format!("missing-newest-entry/after-{}", class)
                    } else if a.trimmed {
                        "wrong-entries-after-trimming-to-100".to_string()
                    } else {
                        format!("entries-differ/after-{}", class)
                    };
                    return Ok(Some((format!("history/{}", sym), json!({
                        "key": key_name(k), "tmp_pending": tmp_pending, "served_len": newest_first.len(), "expected_len": want_nf.len(),
                        "served_newest": newest_first.iter().take(4).map(|s| brief(s)).collect::<Vec<_>>(),
                        "expected_newest": want_nf.iter().take(4).map(|s| brief(s)).collect::<Vec<_>>(),
                        "served_oldest": newest_first.iter().rev().take(2).map(|s| brief(s)).collect::<Vec<_>>(),
                        "expected_oldest": want_nf.iter().rev().take(2).map(|s| brief(s)).collect::<Vec<_>>(),
                        "alternatives_accepted": a.hists.len()}))));
                }
            }
        }
        Ok(None)
    }

    async fn history_page(&mut self, k: usize, offset: Option<i64>, limit: Option<i64>) -> anyhow::Result<(usize, Vec<String>)> {
        let (t, g, d) = key_parts(k);
        // shape of console OpsConfigQueryListRequest::to_history_param
        let p = ConfigHistoryParam { id: None, data_id: Some(d.to_string()), group: Some(g.to_string()), tenant: Some(t.to_string()), order_by: Some("last_time".into()), order_by_desc: Some(true), limit, offset };
        self.count("history_queries", 1);
        match self.cfg.send(ConfigCmd::QueryHistoryPageInfo(Box::new(p))).await?? {
            ConfigResult::ConfigHistoryInfoPage(total, list) => Ok((total, list.into_iter().map(|x| x.content.unwrap_or_default()).collect())),
            _ => anyhow::bail!("unexpected answer to QueryHistoryPageInfo"),
        }
    }

    async fn query(&mut self, f: &Filter, offset: usize, limit: usize) -> anyhow::Result<(usize, Vec<ConfigInfoDto>)> {
        self.count("list_queries", 1);
        match self.cfg.send(ConfigCmd::QueryPageInfo(Box::new(f.to_param(offset, limit)))).await?? {
            ConfigResult::ConfigInfoPage(total, list) => Ok((total, list)),
            _ => anyhow::bail!("unexpected answer to QueryPageInfo"),
        }
    }

    /// pages through one filter with one page size; returns the first discrepancy (symptom, detail)
    async fn check_listing(&mut self, f: &Filter, limit: usize) -> anyhow::Result<Option<(String, Value)>> {
        let must: BTreeSet<usize> = self.model.keys.iter().filter(|(k, m)| m.applied.is_some() && f.matches(**k)).map(|(k, _)| *k).collect();
        let may: BTreeSet<usize> = self.model.keys.iter().filter(|(k, m)| m.applied.is_none() && f.matches(**k)).map(|(k, _)| *k).collect();
        let index: HashMap<(String, String, String), usize> = (0..NKEYS).map(|k| { let (t, g, d) = key_parts(k); ((t.to_string(), g.to_string(), d.to_string()), k) }).collect();
        let mut seen: BTreeSet<usize> = BTreeSet::new();
        let mut page = 0usize;
        let mut totals = vec![];
        let mut lens = vec![];
        loop {
            let offset = page * limit;
            let (total, list) = self.query(f, offset, limit).await?;
            totals.push(total);
            lens.push(list.len());
            for it in &list {
                let id = (it.tenant.to_string(), it.group.to_string(), it.data_id.to_string());
                let k = match index.get(&id) {
                    Some(k) => *k,
                    None => return Ok(Some(("unknown-key-listed".into(), json!({"filter": f.to_json(), "limit": limit, "offset": offset, "item": format!("{:?}", id)})))),
                };
                if !self.model.keys.contains_key(&k) {
                    let s = if self.model.removed.contains(&k) { "removed-key-listed" } else { "never-written-key-listed" };
                    return Ok(Some((s.into(), json!({"filter": f.to_json(), "limit": limit, "offset": offset, "key": key_name(k), "last_op_on_key": self.model.last_class.get(&k)}))));
                }
                if !f.matches(k) {
                    return Ok(Some(("key-outside-filter-listed".into(), json!({"filter": f.to_json(), "limit": limit, "offset": offset, "key": key_name(k)}))));
                }
                if !seen.insert(k) {
                    return Ok(Some(("key-listed-twice".into(), json!({"filter": f.to_json(), "limit": limit, "offset": offset, "key": key_name(k), "page": page}))));
                }
                let mk = self.model.keys.get(&k).unwrap();
                if f.query_context {
                    let c = it.content.as_ref().map(|x| x.as_str()).unwrap_or("");
                    let ok = mk.tmp.as_ref().map(|t| t.as_str() == c).unwrap_or(false) || mk.applied.as_ref().map(|a| a.content.as_str() == c).unwrap_or(false);
                    if !ok {
                        return Ok(Some(("listed-content-is-not-the-last-published".into(), json!({"filter": f.to_json(), "key": key_name(k), "served": brief(c)}))));
                    }
                    let m = it.md5.as_ref().map(|x| x.as_str()).unwrap_or("");
                    if m != md5_hex(c) {
                        return Ok(Some(("listed-md5-does-not-match-content".into(), json!({"filter": f.to_json(), "key": key_name(k), "served_md5": m, "content": brief(c)}))));
                    }
                }
                if let Some(a) = &mk.applied {
                    let d = it.desc.as_ref().map(|x| x.to_string()).unwrap_or_default();
                    if !a.desc.contains(&d) {
                        return Ok(Some(("listed-desc-is-not-the-last-published".into(), json!({"filter": f.to_json(), "key": key_name(k), "served": d, "acceptable": a.desc}))));
                    }
                }
            }
            page += 1;
            // one page beyond the announced end must be empty; stop there
            if offset >= total.max(must.len()) || page > 400 {
                break;
            }
        }
        let missing: Vec<usize> = must.difference(&seen).cloned().collect();
        if let Some(k) = missing.first() {
            let mk = self.model.keys.get(k).unwrap();
            return Ok(Some((format!("stored-key-missing/{}", mk.lineage), json!({"filter": f.to_json(), "limit": limit, "key": key_name(*k), "lineage": mk.lineage,
                "last_op_on_key": self.model.last_class.get(k), "totals": totals, "page_lengths": lens, "stored_matching": must.len()}))));
        }
        let listed = seen.len();
        for (i, t) in totals.iter().enumerate() {
            if *t != listed || *t < must.len() || *t > must.len() + may.len() {
                return Ok(Some(("total-differs-from-matches".into(), json!({"filter": f.to_json(), "limit": limit, "page": i, "total": t, "distinct_listed": listed, "stored_matching": must.len(), "tmp_only_matching": may.len()}))));
            }
        }
        for (i, l) in lens.iter().enumerate() {
            let want = listed.saturating_sub(i * limit).min(limit);
            if *l != want {
                return Ok(Some(("page-length-wrong".into(), json!({"filter": f.to_json(), "limit": limit, "page": i, "length": l, "expected": want, "total": listed}))));
            }
        }
        let cls = if listed == 0 { "empty" } else if listed <= limit { "single-page" } else { "multi-page" };
        if listed > 0 || !self.model.keys.is_empty() {
            self.shape(format!("list/{}/limit{}/{}", f.shape(), limit, cls));
        }
        // a window at an arbitrary (non page-aligned) offset
        if listed > 1 {
            let off = self.r.gen_range(0..listed + 1);
            let (total, list) = self.query(f, off, limit).await?;
            let want = listed.saturating_sub(off).min(limit);
            let distinct: BTreeSet<String> = list.iter().map(|it| format!("{}|{}|{}", it.tenant, it.group, it.data_id)).collect();
            if total != listed || list.len() != want || distinct.len() != list.len() {
                return Ok(Some(("window-at-free-offset-wrong".into(), json!({"filter": f.to_json(), "limit": limit, "offset": off, "total": total, "length": list.len(), "expected_length": want, "expected_total": listed}))));
            }
        }
        Ok(None)
    }

    async fn sweep(&mut self) -> anyhow::Result<Option<(String, Value)>> {
        self.count("sweeps", 1);
        // ---- listings
        let mut filters: Vec<Filter> = vec![];
        for t in 0..TENANTS.len() {
            let all = endpoint_filters(t);
            if self.full_sweeps {
                filters.extend(all);
            } else {
                // the three "everything in the tenant" shapes always, plus a sample of the others
                for f in all.iter() {
                    let everything = f.group.is_none() && f.data_id.is_none() && f.like_group.is_none() && f.like_data_id.is_none();
                    if everything || self.r.gen_range(0..100) < 9 {
                        filters.push(f.clone());
                    }
                }
            }
        }
        for f in &filters {
            for limit in PAGE_SIZES {
                if let Some((sym, d)) = self.check_listing(f, limit).await? {
                    return Ok(Some((format!("list/{}", sym), d)));
                }
            }
        }
        // ---- shapes no endpoint produces: diagnostics only
        for f in &unreachable_filters() {
            for limit in [2usize, 100_000] {
                if let Some((sym, d)) = self.check_listing(f, limit).await? {
                    let tn = if f.tenant.is_none() { "all-tenants" } else { "one-tenant" };
                    let lm = if limit > 1000 { "one-big-page" } else { "paged" };
                    self.diag.push((format!("unreachable-shape/{}/{}/{}/{}", tn, f.shape(), lm, sym.split('/').next().unwrap_or("")), d));
                }
            }
        }
        // ---- histories of every stored key, paged
        let keys: Vec<usize> = self.model.keys.iter().filter(|(_, m)| m.applied.is_some()).map(|(k, _)| *k).collect();
        for k in keys {
            let want: Vec<String> = self.model.keys[&k].applied.as_ref().unwrap().hists[0].iter().rev().map(|x| x.to_string()).collect();
            if self.model.keys[&k].applied.as_ref().unwrap().hists.len() > 1 {
                continue; // undecided alternative, decided at the next read of the key
            }
            let sizes: Vec<usize> = if self.full_sweeps || want.len() > 7 || self.r.gen_range(0..4) == 0 { PAGE_SIZES.to_vec() } else { vec![PAGE_SIZES[self.r.gen_range(0..4)]] };
            for limit in sizes {
                let mut got: Vec<String> = vec![];
                let mut page = 0;
                loop {
                    let (total, list) = self.history_page(k, Some((page * limit) as i64), Some(limit as i64)).await?;
                    if total != want.len() {
                        return Ok(Some(("history/page-total-wrong".into(), json!({"key": key_name(k), "limit": limit, "page": page, "total": total, "expected": want.len()}))));
                    }
                    let wl = want.len().saturating_sub(page * limit).min(limit);
                    if list.len() != wl {
                        return Ok(Some(("history/page-length-wrong".into(), json!({"key": key_name(k), "limit": limit, "page": page, "length": list.len(), "expected": wl, "total": total}))));
                    }
                    got.extend(list);
                    page += 1;
                    if page * limit >= want.len() + limit || page > 300 {
                        break;
                    }
                }
                if got != want {
                    let first = got.iter().zip(want.iter()).position(|(a, b)| a != b);
                    return Ok(Some(("history/pages-do-not-concatenate-to-the-history".into(), json!({"key": key_name(k), "limit": limit, "first_difference_at": first, "got_len": got.len(), "want_len": want.len()}))));
                }
                if want.len() > limit {
                    self.shape(format!("history-paging/limit{}/multi-page{}", limit, if want.len() == BOUND { "/full-100" } else { "" }));
                }
            }
            // shape no endpoint produces: no offset
            let (total, list) = self.history_page(k, None, Some(10)).await?;
            if total != want.len() || list.len() != want.len().min(10) {
                self.diag.push(("unreachable-shape/history-without-offset".into(), json!({"key": key_name(k), "total": total, "length": list.len(), "history_len": want.len()})));
            }
        }
        Ok(None)
    }
}

/// run one history on a fresh ConfigActor; the first violation ends it
pub async fn exec(ctx: &Ctx, ops: &[Op], seed: u64, mut rep: Option<&mut Report>, full_sweeps: bool, diag_out: &mut Vec<(String, Value)>) -> anyhow::Result<Option<Viol>> {
    let cfg = new_config_actor(ctx).await;
    let mut run = Run { cfg, model: Model::default(), rep: rep.as_deref_mut(), diag: vec![], r: rng(seed ^ 0x5eed), full_sweeps, hist_id: 0, clock: seed % 4 };
    if let Some(r) = run.rep.as_mut() {
        r.shape(format!("publish-clock/{}", ["1ms-apart", "bursts-in-one-ms", "all-in-one-ms", "jumps-back"][(seed % 4) as usize]));
    }
    let mut result = None;
    for (i, op) in ops.iter().enumerate() {
        let prev = op.key().and_then(|k| run.model.last_class.get(&k).cloned()).unwrap_or("none");
        run.send_op(op).await?;
        let class = run.model.apply(op);
        let v = match op {
            Op::Sweep => run.sweep().await?,
            _ => {
                run.count("ops", 1);
                run.shape(format!("op/{}>{}", prev, class));
                if let Op::Add { content, .. } | Op::Import { content, .. } | Op::Tmp { content, .. } = op {
                    let cc = if content.is_empty() { "empty" } else if content.len() > 10_000 { "large" } else if !content.is_ascii() { "non-ascii" } else { "ascii" };
                    run.shape(format!("content/{}/{}", class.split('-').next().unwrap_or(""), cc));
                }
                run.check_key(op.key().unwrap(), class).await?
            }
        };
        if let Some((sig, detail)) = v {
            result = Some(Viol { sig, op_index: i, detail });
            break;
        }
    }
    // release the memory of this history (the actor itself keeps ticking, it has no stop message)
    let keys: Vec<usize> = run.model.keys.keys().cloned().collect();
    for k in keys {
        let _ = run.send_op(&Op::Remove { k }).await;
    }
    diag_out.append(&mut run.diag);
    Ok(result)
}

/// delta-debugging on the operation list by re-running the real code; keeps the signature fixed
async fn shrink(ctx: &Ctx, ops: Vec<Op>, seed: u64, sig: &str, at: usize) -> anyhow::Result<Vec<Op>> {
    let mut cur: Vec<Op> = ops[..=at].to_vec();
    if !matches!(cur.last(), Some(Op::Sweep)) && sig.starts_with("list/") {
        cur.push(Op::Sweep);
    }
    let mut sink = vec![];
    let mut budget = 600;
    let mut chunk = (cur.len() / 2).max(1);
    loop {
        let mut i = 0;
        while i < cur.len() && budget > 0 {
            let end = (i + chunk).min(cur.len());
            if end == cur.len() && i == 0 {
                break;
            }
            let mut cand = cur.clone();
            cand.drain(i..end);
            budget -= 1;
            let keep = match exec(ctx, &cand, seed, None, true, &mut sink).await? {
                Some(v) => v.sig == sig,
                None => false,
            };
            if keep {
                cur = cand;
            } else {
                i = end;
            }
        }
        if chunk == 1 || budget == 0 {
            break;
        }
        chunk = (chunk / 2).max(1);
    }
    Ok(cur)
}

pub fn run(args: &Args) -> anyhow::Result<()> {
    let seed = args.u64("seed", 1);
    let histories = args.u64("histories", 25);
    let nops = args.u64("ops", 150) as usize;
    let dir = args.str("dir", "/tmp/vh-c09");
    let only = args.get("only").and_then(|s| s.parse::<u64>().ok());
    std::fs::create_dir_all(&dir)?;
    std::env::set_var("RNACOS_DATA_DIR", format!("{}/host", dir));
    std::env::set_var("RNACOS_RAFT_NODE_ID", "1");
    std::env::set_var("RNACOS_RAFT_AUTO_INIT", "true");
    std::env::set_var("RNACOS_RAFT_NODE_ADDR", "127.0.0.1:1");
    std::env::set_var("RNACOS_NAMING_PERPETUAL_INSTANCE_PROBE_INTERVAL_SECOND", "0");
    std::env::set_var("RNACOS_ENABLE_METRICS", "false");
    let sys_config = Arc::new(AppSysConfig::init_from_env());
    let mut rep = Report::default();
    let sys = actix_rt::System::new();
    let verbose = args.has("verbose");
    let r: anyhow::Result<()> = sys.block_on(async {
        let factory_data = config_factory(sys_config.clone()).await?;
        let app = build_share_data(factory_data.clone())?;
        let ctx = Ctx { ns: app.namespace_addr.clone() };
        let t0 = std::time::Instant::now();
        let seeds: Vec<u64> = match only {
            Some(s) => vec![s],
            None => (0..histories).map(|i| seed.wrapping_mul(1_000_003).wrapping_add(i)).collect(),
        };
        for hs in seeds {
            let (ops, style) = gen_history(hs, nops);
            let mut diag = vec![];
            rep.count("histories", 1);
            let v = exec(&ctx, &ops, hs, Some(&mut rep), false, &mut diag).await?;
            rep.shape(format!("history-style/{}", style));
            for (s, d) in diag {
                let k = format!("diag:{}", s);
                if !rep.counters.contains_key(&k) {
                    rep.notes.insert(format!("diagnostic, not a violation (no endpoint produces this parameter shape): {} e.g. {}", s, d));
                }
                rep.count(&k, 1);
            }
            if let Some(v) = v {
                let known = rep.violations.contains_key(&v.sig);
                let witness = if known {
                    json!({"history_seed": hs})
                } else {
                    let small = shrink(&ctx, ops.clone(), hs, &v.sig, v.op_index).await?;
                    // the detail of the shrunk run
                    let mut sink = vec![];
                    let d2 = exec(&ctx, &small, hs, None, true, &mut sink).await?.map(|x| x.detail).unwrap_or(Value::Null);
                    json!({"history_seed": hs, "history_style": style, "failed_at_op": v.op_index, "detail_in_full_history": v.detail,
                           "shrunk_ops": small.iter().map(|o| o.to_json()).collect::<Vec<_>>(), "detail_in_shrunk_history": d2,
                           "replay": format!("vh c09 --only {} --ops {} --verbose", hs, nops)})
                };
                if verbose {
                    eprintln!("VIOLATION {} {}", v.sig, serde_json::to_string_pretty(&witness).unwrap_or_default());
                }
                rep.violation(v.sig, witness);
            } else if rep.samples.len() < 3 {
                rep.sample(json!({"history_seed": hs, "style": style, "ops": ops.len(), "first_ops": ops.iter().take(6).map(|o| o.to_json()).collect::<Vec<_>>(), "verdict": "all reads, listings and histories agreed with the reference model"}), 3);
            }
        }
        rep.count("wall_ms_in_shard", t0.elapsed().as_millis() as u64);
        Ok(())
    });
    r?;
    rep.write(args)?;
    std::process::exit(0);
}
