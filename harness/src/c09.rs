//! C09 rig (see DESIGN.md section 3/C09) - filled in by the C09 check.
use crate::util::Args;

pub fn run(_args: &Args) -> anyhow::Result<()> {
    anyhow::bail!("not implemented")
}
