//! vh — runtime-monitoring harness for r-nacos (see /verif/DESIGN.md).
//! Every sub-command links the real library built from /repo's working tree.
mod c09;
mod c10;
mod c11;
mod c12;
mod c13;
mod c14;
mod c17;
mod c20;
mod grpcc;
mod node;
mod store;
mod util;

use util::Args;

fn main() {
    let mut argv: Vec<String> = std::env::args().skip(1).collect();
    if argv.is_empty() {
        eprintln!("usage: vh <sub-command> [--key value ...]");
        std::process::exit(2);
    }
    let sub = argv.remove(0);
    let args = Args::parse(&argv);
    let r = match sub.as_str() {
        "c20" => c20::run(&args),
        "store-session" => store::run(&args),
        "node-session" => node::run(&args),
        "c17-func" => c17::run(&args),
        "c09" => c09::run(&args),
        "c10" => c10::run(&args),
        "c11" => c11::run(&args),
        "c12" => c12::run(&args),
        "c13" => c13::run(&args),
        "c14" => c14::run(&args),
        "grpc-client" => grpcc::run(&args),
        _ => {
            eprintln!("unknown sub-command {}", sub);
            std::process::exit(2);
        }
    };
    if let Err(e) = r {
        eprintln!("HARNESS-ERROR {}: {:?}", sub, e);
        std::process::exit(4);
    }
}
