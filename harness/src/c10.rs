//! C10 rig (see DESIGN.md section 3/C10) - filled in by the C10 check.
use crate::util::Args;

pub fn run(_args: &Args) -> anyhow::Result<()> {
    anyhow::bail!("not implemented")
}
