//! C10 part 1 — long-poll listeners on a stand-alone `ConfigActor` (DESIGN.md section 3/C10).
//!
//! `vh c10 --seed S --shard i --shards n --out f [--bases N] [--sampled N] [--timed N] [--only-base <seed>] [--verbose]`
//!
//! The harness is the long-polling client: it sends `ConfigCmd::LISTENER(items, oneshot sender, deadline_millis)` and
//! keeps the receivers. A schedule is an explicit MESSAGE ORDER (the actor is single threaded, every send is awaited,
//! so the order of sends is the interleaving). For small scenarios (<= 3 listeners, <= 3 keys, <= 4 changes) every
//! permutation of {listen_i, change_j} is executed; larger ones are sampled. A second family runs on real time with
//! short deadlines so that the actor's own 500 ms time-out tick decides.
//!
//! Oracle (over the recorded history, written from the property): for a listener L registered at step r and a key k
//! in L held with md5 m:
//!   * md5 served at r differs from m                       -> answered at r with k in the answer;
//!   * else the first later publish that changes the content (served or applied) / remove of an existing key, of any
//!     key of L, processed at step e before L's deadline    -> L answered no later than e, and if it is answered at e
//!     the answer names the key changed at e;
//!   * else                                                  -> answered in [deadline, deadline + 500 ms tick + slack].
//! Spurious answers are allowed. Temporary values and full-value imports are not publishes: a listener left stale by
//! them is counted as a diagnostic, not as a violation.
use crate::util::{now_ms, rng, Args, Report};
use actix::prelude::*;
use rand::rngs::StdRng;
use rand::seq::SliceRandom;
use rand::Rng;
use rnacos::config::core::{ConfigActor, ConfigCmd, ConfigKey, ConfigResult, ListenerItem, ListenerResult};
use rnacos::config::model::{ConfigHistoryItemDO, ConfigRaftCmd, ConfigValueDO};
use serde_json::{json, Value};
use std::collections::BTreeSet;
use std::sync::Arc;
use tokio::sync::oneshot::{error::TryRecvError, Receiver};

const TICK_MS: i64 = 500;
const SLACK_MS: i64 = 400;

fn md5_hex(s: &str) -> String {
    format!("{:x}", md5::compute(s.as_bytes()))
}

#[derive(Clone, Copy, Debug, PartialEq, Eq, PartialOrd, Ord)]
pub enum Held {
    /// the md5 the server serves for the key at the moment the listener is sent ("" for an absent key)
    Current,
    /// md5 of a content the key never had
    Stale,
    Empty,
    /// md5 of the key's initial content: current while untouched, "md5 of a removed key" after a remove, stale after a publish
    OfInitial,
}

#[derive(Clone, Copy, Debug, PartialEq, Eq, PartialOrd, Ord)]
pub enum Change {
    PubNew,
    PubSame,
    Remove,
    Tmp,
    ImportNew,
    ImportSame,
}

impl Change {
    fn name(&self) -> &'static str {
        match self {
            Change::PubNew => "publish-new",
            Change::PubSame => "publish-same",
            Change::Remove => "remove",
            Change::Tmp => "tmp-value",
            Change::ImportNew => "import-new",
            Change::ImportSame => "import-same",
        }
    }
}

#[derive(Clone, Debug)]
pub enum Ev {
    /// listener: (key index, held kind) per item; deadline in ms from the moment of sending (0 = none given, > 10_000 = "long")
    Listen { id: usize, items: Vec<(usize, Held)>, timeout_ms: i64 },
    Change { kind: Change, key: usize },
}

impl Ev {
    fn to_json(&self) -> Value {
        match self {
            Ev::Listen { id, items, timeout_ms } if *timeout_ms == -1 => json!({"subscribe (ConfigCmd::Subscribe)": id, "items": items.iter().map(|(k, h)| json!([format!("k{}", k), format!("{:?}", h)])).collect::<Vec<_>>()}),
            Ev::Listen { id, items, timeout_ms } => json!({"listen": id, "items": items.iter().map(|(k, h)| json!([format!("k{}", k), format!("{:?}", h)])).collect::<Vec<_>>(), "timeout_ms": timeout_ms}),
            Ev::Change { kind, key } => json!({"change": kind.name(), "key": format!("k{}", key)}),
        }
    }
}

#[derive(Clone, Debug)]
pub struct Base {
    /// initial state per key: true = present with content "c0-<k>"
    init: Vec<bool>,
    events: Vec<Ev>,
}

// ------------------------------------------------------------------------------------------------ model of what is served
#[derive(Clone, Default)]
struct KState {
    applied: Option<String>,
    tmp: Option<String>,
}

impl KState {
    fn served(&self) -> Option<&String> {
        self.tmp.as_ref().or(self.applied.as_ref())
    }
    fn served_md5(&self) -> String {
        self.served().map(|c| md5_hex(c)).unwrap_or_default()
    }
}

struct LState {
    id: usize,
    items: Vec<(usize, String, Held)>,
    reg_step: usize,
    deadline: i64,
    rx: Option<Receiver<ListenerResult>>,
    /// (step, time, Some(keys) = DATA / None = NULL)
    answer: Option<(usize, i64, Option<Vec<usize>>)>,
    dropped: bool,
    /// keys whose held md5 differed from the served one at registration
    imm: Vec<usize>,
    /// state of each differing key at registration ("key-absent" / "key-stored" / "key-with-tmp-value")
    imm_state: Vec<(usize, &'static str)>,
    /// first qualifying change after registration: (step, key, kind, previous event kind on that key, time)
    first_change: Option<(usize, usize, &'static str, &'static str, i64)>,
    pre_events: BTreeSet<&'static str>,
}

/// a ConfigCmd::Subscribe (what a gRPC ConfigBatchListenRequest becomes): only its immediate answer is observable in-process
struct SubRec {
    id: usize,
    step: usize,
    items: Vec<(usize, String, Held)>,
    imm: Vec<usize>,
    imm_state: Vec<(usize, &'static str)>,
    got: Vec<usize>,
}

pub struct Sess {
    subs: Vec<SubRec>,
    cfg: Addr<ConfigActor>,
    uniq: String,
    keys: Vec<KState>,
    last_ev: Vec<&'static str>,
    ls: Vec<LState>,
    step: usize,
    fresh: u64,
    hist_id: u64,
    trace: Vec<Value>,
}

impl Sess {
    pub fn new(cfg: Addr<ConfigActor>, uniq: String, nkeys: usize) -> Self {
        Self { subs: vec![], cfg, uniq, keys: vec![KState::default(); nkeys], last_ev: vec!["none"; nkeys], ls: vec![], step: 0, fresh: 0, hist_id: 0, trace: vec![] }
    }
    fn ckey(&self, k: usize) -> ConfigKey {
        // three tenants/groups so that key equality really involves all parts
        let tenant = ["", "dev", "t-2"][k % 3];
        ConfigKey::new(&format!("d{}-{}", k, self.uniq), if k == 1 { "grp" } else { "DEFAULT_GROUP" }, tenant)
    }
    fn key_index(&self, ck: &ConfigKey) -> usize {
        let s = ck.build_key();
        s.split('\x02').next().and_then(|d| d.strip_suffix(&format!("-{}", self.uniq))).and_then(|d| d.strip_prefix('d')).and_then(|d| d.parse::<usize>().ok()).unwrap_or(usize::MAX)
    }
    fn raft_key(&self, k: usize) -> String {
        let ck = self.ckey(k);
        ck.build_key()
    }
    async fn publish(&mut self, k: usize, content: &str) -> anyhow::Result<()> {
        self.hist_id += 1;
        self.cfg.send(ConfigRaftCmd::ConfigAdd { key: self.raft_key(k), value: Arc::new(content.to_string()), config_type: None, desc: None, history_id: self.hist_id, history_table_id: None, op_time: now_ms() as i64, op_user: None }).await??;
        Ok(())
    }
    async fn init_key(&mut self, k: usize) -> anyhow::Result<()> {
        let c = format!("c0-{}", k);
        self.publish(k, &c).await?;
        self.keys[k].applied = Some(c);
        Ok(())
    }

    /// poll every outstanding receiver (answers are sent synchronously inside the actor's handlers)
    fn poll(&mut self) {
        let now = now_ms() as i64;
        let step = self.step;
        let uniq = self.uniq.clone();
        for l in self.ls.iter_mut() {
            if let Some(rx) = l.rx.as_mut() {
                match rx.try_recv() {
                    Ok(ListenerResult::DATA(keys)) => {
                        let ks: Vec<usize> = keys.iter().map(|ck| {
                            let s = ck.build_key();
                            // recover the key index from the dataId "d<k>-<uniq>"
                            s.split('\x02').next().and_then(|d| d.strip_suffix(&format!("-{}", uniq))).and_then(|d| d.strip_prefix('d')).and_then(|d| d.parse::<usize>().ok()).unwrap_or(usize::MAX)
                        }).collect();
                        l.answer = Some((step, now, Some(ks)));
                        l.rx = None;
                    }
                    Ok(ListenerResult::NULL) => {
                        l.answer = Some((step, now, None));
                        l.rx = None;
                    }
                    Err(TryRecvError::Empty) => {}
                    Err(TryRecvError::Closed) => {
                        l.dropped = true;
                        l.rx = None;
                    }
                }
            }
        }
    }

    pub async fn apply(&mut self, ev: &Ev) -> anyhow::Result<()> {
        self.step += 1;
        let step = self.step;
        match ev {
            Ev::Listen { id, items, timeout_ms } => {
                let now = now_ms() as i64;
                let deadline = if *timeout_ms <= 0 { 0 } else { now + timeout_ms };
                let mut li = vec![];
                let mut mine = vec![];
                let mut imm = vec![];
                let mut imm_state: Vec<(usize, &'static str)> = vec![];
                for (k, h) in items {
                    let served = self.keys[*k].served_md5();
                    let held = match h {
                        Held::Current => served.clone(),
                        Held::Stale => md5_hex("never-the-content"),
                        Held::Empty => String::new(),
                        Held::OfInitial => md5_hex(&format!("c0-{}", k)),
                    };
                    if held != served {
                        imm.push(*k);
                        imm_state.push((*k, if self.keys[*k].served().is_none() { "key-absent" } else if self.keys[*k].tmp.is_some() { "key-with-tmp-value" } else { "key-stored" }));
                    }
                    li.push(ListenerItem::new(self.ckey(*k), Arc::new(held.clone())));
                    mine.push((*k, held, *h));
                }
                if *timeout_ms == -1 {
                    let got = match self.cfg.send(ConfigCmd::Subscribe(li, Arc::new(format!("client-{}-{}", self.uniq, id)))).await?? {
                        ConfigResult::ChangeKey(keys) => keys.iter().map(|ck| self.key_index(ck)).collect(),
                        _ => vec![],
                    };
                    self.trace.push(json!({"step": step, "t": now, "ev": ev.to_json(), "held": mine.iter().map(|(k, m, _)| json!([format!("k{}", k), m])).collect::<Vec<_>>(), "changed_keys_answered": got.iter().map(|k: &usize| format!("k{}", k)).collect::<Vec<_>>()}));
                    self.subs.push(SubRec { id: *id, step, items: mine, imm, imm_state, got });
                    self.poll();
                    return Ok(());
                }
                let (tx, rx) = tokio::sync::oneshot::channel();
                self.cfg.send(ConfigCmd::LISTENER(li, tx, deadline)).await??;
                self.trace.push(json!({"step": step, "t": now, "ev": ev.to_json(), "held": mine.iter().map(|(k, m, _)| json!([format!("k{}", k), m])).collect::<Vec<_>>(), "deadline": deadline}));
                self.ls.push(LState { id: *id, items: mine, reg_step: step, deadline, rx: Some(rx), answer: None, dropped: false, imm, imm_state, first_change: None, pre_events: BTreeSet::new() });
            }
            Ev::Change { kind, key } => {
                let k = *key;
                let before_served = self.keys[k].served_md5();
                let before_applied = self.keys[k].applied.clone();
                self.fresh += 1;
                let fresh = format!("v{}-{}", self.fresh, k);
                let mut qualifying = false;
                match kind {
                    Change::PubNew | Change::PubSame => {
                        let content = if *kind == Change::PubSame { self.keys[k].served().cloned().unwrap_or(fresh) } else { fresh };
                        self.publish(k, &content).await?;
                        self.keys[k].tmp = None;
                        self.keys[k].applied = Some(content);
                        // a publish that changes the content: the applied one or the served one
                        if self.keys[k].applied != before_applied || self.keys[k].served_md5() != before_served {
                            qualifying = true;
                        }
                    }
                    Change::Remove => {
                        self.cfg.send(ConfigRaftCmd::ConfigRemove { key: self.raft_key(k) }).await??;
                        qualifying = self.keys[k].served().is_some();
                        self.keys[k] = KState::default();
                    }
                    Change::Tmp => {
                        self.cfg.send(ConfigCmd::SetTmpValue(self.ckey(k), Arc::new(fresh.clone()))).await??;
                        self.keys[k].tmp = Some(fresh);
                    }
                    Change::ImportNew | Change::ImportSame => {
                        let content = if *kind == Change::ImportSame { self.keys[k].served().cloned().unwrap_or(fresh) } else { fresh };
                        self.hist_id += 1;
                        let vdo = ConfigValueDO { content: Some(content.clone()), histories: vec![ConfigHistoryItemDO { id: Some(self.hist_id), content: Some(content.clone()), last_time: Some(now_ms() as i64), op_user: None }], config_type: None, desc: None };
                        self.cfg.send(ConfigRaftCmd::SetFullValue { key: self.ckey(k), value: vdo.into(), last_id: None }).await??;
                        self.keys[k].tmp = None;
                        self.keys[k].applied = Some(content);
                    }
                }
                let now = now_ms() as i64;
                let kind_name: &'static str = match (kind, qualifying) {
                    (Change::PubNew, _) if before_served.is_empty() => "publish-creates",
                    (Change::PubSame, true) if before_served.is_empty() => "publish-creates",
                    (Change::PubSame, true) => "publish-over-tmp-value",
                    (Change::Remove, false) => "remove-absent",
                    (c, _) => c.name(),
                };
                let prev = self.last_ev[k];
                for l in self.ls.iter_mut() {
                    if l.answer.is_none() && !l.dropped && l.items.iter().any(|(x, _, _)| *x == k) {
                        if qualifying {
                            if l.first_change.is_none() && l.imm.is_empty() {
                                l.first_change = Some((step, k, kind_name, prev, now));
                            }
                        } else if l.first_change.is_none() {
                            l.pre_events.insert(kind_name);
                        }
                    }
                }
                self.last_ev[k] = kind_name;
                self.trace.push(json!({"step": step, "t": now, "ev": ev.to_json(), "as": kind_name, "content_changing": qualifying, "served_md5_after": self.keys[k].served_md5()}));
            }
        }
        self.poll();
        Ok(())
    }

    /// served md5 as the actor reports it (cross-check of the harness' own bookkeeping)
    async fn actor_md5(&self, k: usize) -> anyhow::Result<String> {
        Ok(match self.cfg.send(ConfigCmd::GET(self.ckey(k))).await?? {
            ConfigResult::Data { md5, .. } => md5.to_string(),
            _ => String::new(),
        })
    }

    async fn cleanup(&mut self) {
        for k in 0..self.keys.len() {
            let _ = self.cfg.send(ConfigRaftCmd::ConfigRemove { key: self.raft_key(k) }).await;
        }
    }
}

pub struct Verdict {
    pub viol: Vec<(String, Value)>,
    pub late: Vec<(String, Value)>,
    pub shapes: Vec<String>,
    pub diags: Vec<String>,
}

/// the oracle; `timed` = deadlines are real
fn judge(s: &Sess, timed: bool, end_time: i64) -> Verdict {
    let mut v = Verdict { viol: vec![], late: vec![], shapes: vec![], diags: vec![] };
    for sr in &s.subs {
        let kinds: Vec<String> = sr.items.iter().filter(|(k, _, _)| sr.imm.contains(k)).map(|(_, _, h)| format!("{:?}", h)).collect::<BTreeSet<String>>().into_iter().collect();
        if let Some((_, st)) = sr.imm_state.iter().find(|(k, _)| !sr.got.contains(k)) {
            v.viol.push((format!("subscribe/answer-lacks-a-key-whose-md5-differs/{}", st), json!({"subscriber": sr.id, "step": sr.step,
                "items": sr.items.iter().map(|(k, m, h)| json!([format!("k{}", k), m, format!("{:?}", h)])).collect::<Vec<_>>(), "answered": sr.got.iter().map(|k| format!("k{}", k)).collect::<Vec<_>>()})));
        } else if !sr.imm.is_empty() {
            v.shapes.push(format!("subscribe-immediate/held-{}/k{}", kinds.join("+"), sr.items.len()));
        } else {
            v.shapes.push("subscribe/nothing-differs".to_string());
        }
    }
    for l in &s.ls {
        let desc = json!({"listener": l.id, "registered_at_step": l.reg_step, "items": l.items.iter().map(|(k, m, h)| json!([format!("k{}", k), m, format!("{:?}", h)])).collect::<Vec<_>>(),
            "deadline": l.deadline, "answer": l.answer.as_ref().map(|(st, t, a)| json!({"step": st, "t": t, "result": match a { Some(ks) => json!({"DATA": ks.iter().map(|k| format!("k{}", k)).collect::<Vec<_>>()}), None => json!("NULL") }}))});
        let nk = l.items.len();
        if l.dropped {
            v.viol.push(("longpoll/sender-dropped-without-answer".into(), desc.clone()));
            continue;
        }
        let held_kinds: BTreeSet<String> = l.items.iter().map(|(_, _, h)| format!("{:?}", h)).collect();
        if !l.imm.is_empty() {
            // must be answered at registration with the differing keys
            let kinds: Vec<String> = l.items.iter().filter(|(k, _, _)| l.imm.contains(k)).map(|(_, _, h)| format!("{:?}", h)).collect::<BTreeSet<String>>().into_iter().collect();
            match &l.answer {
                Some((st, _, Some(ks))) if *st == l.reg_step => {
                    let missing: Vec<&(usize, &'static str)> = l.imm_state.iter().filter(|(k, _)| !ks.contains(k)).collect();
                    if !missing.is_empty() {
                        v.viol.push((format!("longpoll/immediate-answer-lacks-a-differing-key/{}", missing[0].1), desc.clone()));
                    } else {
                        v.shapes.push(format!("immediate/held-{}/k{}", kinds.join("+"), nk));
                    }
                }
                _ => v.viol.push((format!("longpoll/no-immediate-answer-although-md5-differs/{}", l.imm_state[0].1), desc.clone())),
            }
            continue;
        }
        if l.deadline <= 0 {
            // no time-out given: the actor answers at once with an empty change list
            if !matches!(&l.answer, Some((st, _, _)) if *st == l.reg_step) {
                v.viol.push(("longpoll/no-answer-for-a-listener-without-timeout".into(), desc.clone()));
            } else {
                v.shapes.push("no-timeout/answered-at-once".into());
            }
            continue;
        }
        let pre: Vec<&str> = l.pre_events.iter().cloned().collect();
        let margin = 60;
        match l.first_change {
            Some((step, key, kind, prev, t)) if !timed || t < l.deadline - margin => {
                let sharers = s.ls.iter().filter(|o| o.items.iter().any(|(x, _, _)| *x == key) && o.reg_step < step && o.answer.as_ref().map(|a| a.0 >= step).unwrap_or(true)).count();
                match &l.answer {
                    Some((st, _, a)) if *st <= step => {
                        if *st == step {
                            match a {
                                Some(ks) if ks.contains(&key) => {
                                    v.shapes.push(format!("pending-listener/keys{}/sharers{}/at-{}", nk, sharers.min(3), kind));
                                    v.shapes.push(format!("pending-at/{}/prev-{}/sharers{}{}{}", kind, prev, sharers.min(3), if pre.is_empty() { "" } else { "/after-non-changing-events" }, if timed { "/short-deadline" } else { "" }));
                                    for p in &pre {
                                        v.shapes.push(format!("pending-through/{}/then-{}", p, kind));
                                    }
                                    for h in &held_kinds {
                                        v.shapes.push(format!("pending-holding/{}/then-{}", h, kind));
                                    }
                                }
                                _ => v.viol.push((format!("longpoll/answer-at-change-lacks-the-changed-key/{}", kind), json!({"l": desc, "change": {"step": step, "key": format!("k{}", key), "kind": kind}}))),
                            }
                        } else {
                            v.shapes.push(format!("answered-spuriously-before/{}", kind));
                        }
                    }
                    _ => v.viol.push((format!("longpoll/unnotified/{}{}", kind, if prev.starts_with("remove") { "/after-remove" } else { "" }), json!({"l": desc, "change": {"step": step, "key": format!("k{}", key), "kind": kind, "previous_event_on_key": prev}}))),
                }
            }
            fc => {
                if timed {
                    // no content-changing publish/remove clearly before the deadline: answered by deadline + tick + slack
                    let limit = l.deadline + TICK_MS + SLACK_MS;
                    let ambiguous = fc.map(|c| (c.4 - l.deadline).abs() <= margin).unwrap_or(false);
                    match &l.answer {
                        Some((_, t, a)) => {
                            if *t > limit {
                                v.late.push(("longpoll/timeout/answered-later-than-deadline-plus-tick".into(), json!({"l": desc, "late_by_ms": t - limit, "limit": "deadline + 500 ms tick + 400 ms slack"})));
                            } else {
                                let what = match a { None => "NULL", Some(_) => "DATA" };
                                let early = a.is_none() && *t < l.deadline - 20;
                                if early {
                                    v.diags.push("NULL answered before the deadline".into());
                                }
                                v.shapes.push(format!("timeout/{}/k{}/{}{}{}", what, nk, if fc.is_some() { "change-after-deadline" } else { "no-change" }, if pre.is_empty() { String::new() } else { format!("/pre[{}]", pre.join(",")) }, if ambiguous { "/change-at-deadline" } else { "" }));
                            }
                        }
                        None => {
                            if end_time > limit {
                                v.late.push(("longpoll/timeout/not-answered-by-deadline-plus-tick".into(), json!({"l": desc, "observed_until": end_time, "limit": limit})));
                            }
                        }
                    }
                } else {
                    // long deadline, nothing demanded; stale because of a temporary value / import?
                    if l.answer.is_none() {
                        let stale: Vec<&(usize, String, Held)> = l.items.iter().filter(|(k, m, _)| s.keys[*k].served_md5() != *m).collect();
                        if !stale.is_empty() {
                            v.diags.push(format!("listener left waiting on a stale md5 by [{}] (not a publish/remove, so not demanded by the property)", pre.join(",")));
                        } else {
                            v.shapes.push(format!("still-pending-and-current{}", if pre.is_empty() { "" } else { "/after-non-changing-events" }));
                        }
                    }
                }
            }
        }
    }
    v
}

// ------------------------------------------------------------------------------------------------ permutation family
fn permutations<T: Clone>(items: &[T], out: &mut Vec<Vec<T>>) {
    fn rec<T: Clone>(cur: &mut Vec<T>, rest: &mut Vec<T>, out: &mut Vec<Vec<T>>) {
        if rest.is_empty() {
            out.push(cur.clone());
            return;
        }
        for i in 0..rest.len() {
            let x = rest.remove(i);
            cur.push(x.clone());
            rec(cur, rest, out);
            cur.pop();
            rest.insert(i, x);
        }
    }
    rec(&mut vec![], &mut items.to_vec(), out);
}

fn gen_base(r: &mut StdRng, max_l: usize, max_k: usize, max_c: usize) -> Base {
    // biased towards the largest size
    let nk = r.gen_range(1..=max_k);
    let nl = if r.gen_bool(0.6) { max_l } else { r.gen_range(1..=max_l) };
    let nc = if r.gen_bool(0.6) { max_c } else { r.gen_range(1..=max_c) };
    let init: Vec<bool> = (0..nk).map(|_| r.gen_bool(0.7)).collect();
    let mut events = vec![];
    for id in 0..nl {
        let n_items = if nk == 1 { 1 } else { *[1usize, 1, 2, nk].choose(r).unwrap() };
        let mut ks: Vec<usize> = (0..nk).collect();
        ks.shuffle(r);
        ks.truncate(n_items);
        let items: Vec<(usize, Held)> = ks.into_iter().map(|k| (k, *[Held::Current, Held::Current, Held::Current, Held::OfInitial, Held::OfInitial, Held::Stale, Held::Empty].choose(r).unwrap())).collect();
        events.push(Ev::Listen { id, items, timeout_ms: if r.gen_range(0..5) == 0 { -1 } else { 60_000 } });
    }
    for _ in 0..nc {
        let kind = *[Change::PubNew, Change::PubNew, Change::PubNew, Change::PubSame, Change::Remove, Change::Remove, Change::Tmp, Change::ImportNew, Change::ImportSame].choose(r).unwrap();
        events.push(Ev::Change { kind, key: r.gen_range(0..nk) });
    }
    Base { init, events }
}

/// hand-written bases: the orders named in the property text
fn fixed_bases() -> Vec<Base> {
    let l = |id: usize, items: Vec<(usize, Held)>| Ev::Listen { id, items, timeout_ms: 60_000 };
    let c = |kind: Change, key: usize| Ev::Change { kind, key };
    vec![
        // listen / remove / publish on one key, two listeners
        Base { init: vec![true], events: vec![l(0, vec![(0, Held::Current)]), l(1, vec![(0, Held::OfInitial)]), c(Change::Remove, 0), c(Change::PubNew, 0), c(Change::PubSame, 0)] },
        // one listener holding several keys, another sharing one of them: the first key fires, the others stay registered
        Base { init: vec![true, true, false], events: vec![l(0, vec![(0, Held::Current), (1, Held::Current), (2, Held::Current)]), l(1, vec![(1, Held::Current)]), l(2, vec![(2, Held::Empty), (0, Held::OfInitial)]), c(Change::PubNew, 0), c(Change::PubNew, 1), c(Change::PubNew, 2), c(Change::Remove, 1)] },
        // temporary value then its publish (routed write) around registrations
        Base { init: vec![true], events: vec![l(0, vec![(0, Held::Current)]), l(1, vec![(0, Held::OfInitial)]), l(2, vec![(0, Held::Current)]), c(Change::Tmp, 0), c(Change::PubSame, 0), c(Change::PubNew, 0)] },
        // import around registrations
        Base { init: vec![true, true], events: vec![l(0, vec![(0, Held::Current), (1, Held::Current)]), l(1, vec![(0, Held::OfInitial)]), c(Change::ImportNew, 0), c(Change::PubSame, 0), c(Change::PubNew, 1), c(Change::Remove, 0)] },
        // absent keys: create, remove, create
        Base { init: vec![false, false], events: vec![l(0, vec![(0, Held::Empty)]), l(1, vec![(0, Held::Current), (1, Held::Current)]), l(2, vec![(1, Held::Stale)]), c(Change::PubNew, 0), c(Change::Remove, 0), c(Change::PubNew, 0), c(Change::PubNew, 1)] },
        // the same listener key set three times
        Base { init: vec![true], events: vec![l(0, vec![(0, Held::Current)]), l(1, vec![(0, Held::Current)]), l(2, vec![(0, Held::Current)]), c(Change::PubNew, 0), c(Change::PubNew, 0), c(Change::Remove, 0), c(Change::PubSame, 0)] },
    ]
}

async fn run_order(cfg: &Addr<ConfigActor>, uniq: String, base: &Base, order: &[Ev], rep: &mut Report, collect: bool) -> anyhow::Result<(Verdict, Vec<Value>)> {
    let mut s = Sess::new(cfg.clone(), uniq, base.init.len());
    for (k, present) in base.init.iter().enumerate() {
        if *present {
            s.init_key(k).await?;
        }
    }
    for ev in order {
        s.apply(ev).await?;
    }
    // cross-check of the bookkeeping against the actor
    for k in 0..s.keys.len() {
        let m = s.actor_md5(k).await?;
        if m != s.keys[k].served_md5() {
            rep.inconclusive.push(format!("harness bookkeeping differs from the actor for key k{}: {} vs {}", k, m, s.keys[k].served_md5()));
        }
    }
    let v = judge(&s, false, 0);
    let trace = if collect || !v.viol.is_empty() { s.trace.clone() } else { vec![] };
    s.cleanup().await;
    Ok((v, trace))
}

// ------------------------------------------------------------------------------------------------ timed family
#[derive(Clone)]
struct Timed {
    nkeys: usize,
    init: Vec<bool>,
    /// (time offset ms, event)
    events: Vec<(i64, Ev)>,
}

fn gen_timed(r: &mut StdRng, family: usize) -> Timed {
    let l = |id: usize, items: Vec<(usize, Held)>, t: i64| Ev::Listen { id, items, timeout_ms: t };
    let c = |kind: Change, key: usize| Ev::Change { kind, key };
    let d = *[200i64, 300, 400, 600, 800].choose(r).unwrap();
    match family % 10 {
        9 => {
            // a key many clients have polled before: n quiet polls that ran out (their entries stay behind in the key's listener
            // list until something sweeps them), then one more poll, then the change it waits for
            let n = *[3usize, 15, 16, 17, 20, 33].choose(r).unwrap();
            let mut events: Vec<(i64, Ev)> = (0..n).map(|i| ((i % 4) as i64 * 10, l(i, vec![(0, Held::Current)], 200))).collect();
            events.push((1000, l(n, vec![(0, Held::Current)], 800)));
            events.push((1150, c(*[Change::PubNew, Change::Remove].choose(r).unwrap(), 0)));
            Timed { nkeys: 1, init: vec![true], events }
        }
        0 => Timed { nkeys: 1, init: vec![true], events: vec![(0, l(0, vec![(0, Held::Current)], d))] },
        1 => Timed { nkeys: 1, init: vec![true], events: vec![(0, l(0, vec![(0, Held::Current)], d)), (d - 120, c(*[Change::PubNew, Change::Remove].choose(r).unwrap(), 0))] },
        2 => Timed { nkeys: 1, init: vec![true], events: vec![(0, l(0, vec![(0, Held::Current)], d)), (d + 150, c(Change::PubNew, 0))] },
        3 => Timed { nkeys: 1, init: vec![true], events: vec![(0, l(0, vec![(0, Held::Current)], 200)), (0, l(1, vec![(0, Held::Current)], 800)), (500, c(Change::PubNew, 0))] },
        4 => Timed { nkeys: 2, init: vec![true, true], events: vec![(0, l(0, vec![(0, Held::Current), (1, Held::Current)], d)), (50, c(Change::PubSame, 0)), (80, c(Change::Tmp, 1))] },
        5 => Timed { nkeys: 1, init: vec![r.gen_bool(0.5)], events: vec![(0, l(0, vec![(0, Held::Stale)], d)), (0, l(1, vec![(0, Held::Current)], 0))] },
        6 => {
            // several listeners with the very same deadline value / registered in the same millisecond
            let n = r.gen_range(2..6);
            Timed { nkeys: 2, init: vec![true, false], events: (0..n).map(|i| (0, l(i, vec![(i % 2, Held::Current)], d))).collect() }
        }
        7 => Timed { nkeys: 2, init: vec![true, true], events: vec![(0, l(0, vec![(0, Held::Current), (1, Held::Current)], 800)), (0, l(1, vec![(1, Held::Current)], 300)), (150, c(Change::PubNew, 1)), (200, l(2, vec![(1, Held::Current)], 300)), (900, c(Change::Remove, 0))] },
        _ => {
            // random
            let nk = r.gen_range(1..=3);
            let nl = r.gen_range(1..=4);
            let mut events = vec![];
            let mut deadlines = vec![];
            for id in 0..nl {
                let at = *[0i64, 0, 100, 250].choose(r).unwrap();
                let t = *[200i64, 400, 600, 800, 60_000].choose(r).unwrap();
                let mut ks: Vec<usize> = (0..nk).collect();
                ks.shuffle(r);
                ks.truncate(r.gen_range(1..=nk));
                deadlines.push(at + t);
                events.push((at, l(id, ks.into_iter().map(|k| (k, *[Held::Current, Held::Current, Held::OfInitial, Held::Empty].choose(r).unwrap())).collect(), t)));
            }
            for _ in 0..r.gen_range(0..4) {
                let mut at = r.gen_range(30..1300i64);
                // keep changes away from the deadlines, the oracle has a margin of 60 ms around them
                while deadlines.iter().any(|dl| (at - dl).abs() < 110) {
                    at += 37;
                }
                events.push((at, c(*[Change::PubNew, Change::PubSame, Change::Remove, Change::Tmp, Change::ImportNew].choose(r).unwrap(), r.gen_range(0..nk))));
            }
            events.sort_by_key(|e| e.0);
            Timed { nkeys: nk, init: (0..nk).map(|_| r.gen_bool(0.7)).collect(), events }
        }
    }
}

async fn run_timed(cfg: Addr<ConfigActor>, uniq: String, sc: Timed) -> anyhow::Result<(Verdict, Vec<Value>, Vec<Value>)> {
    let mut s = Sess::new(cfg, uniq, sc.nkeys);
    for (k, present) in sc.init.iter().enumerate() {
        if *present {
            s.init_key(k).await?;
        }
    }
    let start = now_ms() as i64;
    let mut idx = 0;
    let mut horizon = start + 200;
    loop {
        let now = now_ms() as i64;
        while idx < sc.events.len() && start + sc.events[idx].0 <= now {
            s.apply(&sc.events[idx].1).await?;
            idx += 1;
        }
        s.poll();
        for l in &s.ls {
            if l.deadline > 0 && l.deadline < start + 20_000 {
                horizon = horizon.max(l.deadline + TICK_MS + SLACK_MS + 150);
            }
        }
        let short_pending = s.ls.iter().any(|l| l.answer.is_none() && !l.dropped && l.deadline > 0 && l.deadline < start + 20_000);
        if idx >= sc.events.len() && (!short_pending || now > horizon + 2500) {
            break;
        }
        tokio::time::sleep(std::time::Duration::from_millis(10)).await;
    }
    let end = now_ms() as i64;
    let v = judge(&s, true, end);
    let trace = s.trace.clone();
    let evs = sc.events.iter().map(|(t, e)| json!({"at_ms": t, "ev": e.to_json()})).collect();
    s.cleanup().await;
    Ok((v, trace, evs))
}

// ------------------------------------------------------------------------------------------------ driver
fn absorb(rep: &mut Report, v: &Verdict) {
    for s in &v.shapes {
        rep.shape(s.clone());
    }
    for d in &v.diags {
        rep.count(&format!("diag:{}", d), 1);
    }
}

pub fn run(args: &Args) -> anyhow::Result<()> {
    let seed = args.u64("seed", 1);
    let shard = args.u64("shard", 0);
    let n_bases = args.u64("bases", 6);
    let n_sampled = args.u64("sampled", 2000);
    let n_timed = args.u64("timed", 300);
    let only_base = args.get("only-base").and_then(|s| s.parse::<u64>().ok());
    let verbose = args.has("verbose");
    let mut rep = Report::default();
    let sys = actix_rt::System::new();
    let r: anyhow::Result<()> = sys.block_on(async {
        let mut r = rng(seed);
        let mut cfg = ConfigActor::new().start();
        let mut n_on_actor = 0u64;
        let mut uniq = 0u64;
        // ---------------- exhaustive permutations of small bases
        let mut bases: Vec<(String, Base)> = vec![];
        if let Some(bs) = only_base {
            let mut rr = rng(bs);
            bases.push((format!("seeded:{}", bs), gen_base(&mut rr, 3, 3, 4)));
        } else {
            let fixed = fixed_bases();
            for (i, b) in fixed.into_iter().enumerate() {
                // fixed bases are spread over the shards
                if i as u64 % args.u64("shards", 1) == shard % args.u64("shards", 1) {
                    bases.push((format!("fixed:{}", i), b));
                }
            }
            for i in 0..n_bases {
                let bs = seed.wrapping_mul(7919).wrapping_add(i);
                let mut rr = rng(bs);
                bases.push((format!("seeded:{}", bs), gen_base(&mut rr, 3, 3, 4)));
            }
        }
        for (name, base) in &bases {
            let mut orders = vec![];
            permutations(&base.events, &mut orders);
            rep.count("bases_enumerated", 1);
            rep.count("orders_enumerated", orders.len() as u64);
            for (oi, order) in orders.iter().enumerate() {
                uniq += 1;
                n_on_actor += 1;
                if n_on_actor % 500 == 0 {
                    cfg = ConfigActor::new().start();
                }
                rep.evaluations += 1;
                let (v, trace) = run_order(&cfg, format!("{}x{}", shard, uniq), base, order, &mut rep, false).await?;
                absorb(&mut rep, &v);
                for (sig, d) in v.viol {
                    if verbose && !rep.violations.contains_key(&sig) {
                        eprintln!("VIOLATION {} base={} order#{}\n{}", sig, name, oi, serde_json::to_string_pretty(&json!({"trace": trace, "detail": d})).unwrap_or_default());
                    }
                    rep.violation(sig, json!({"family": "all permutations of a small base", "base": name, "initially_present": base.init, "order": order.iter().map(|e| e.to_json()).collect::<Vec<_>>(), "trace": trace, "detail": d,
                        "replay": if name.starts_with("seeded:") { format!("vh c10 --only-base {} --verbose", &name[7..]) } else { "vh c10 --shards 1 --bases 0 --sampled 0 --timed 0 --verbose".to_string() }}));
                }
                if rep.samples.len() < 2 && oi == 7 {
                    let (_, tr) = run_order(&cfg, format!("{}s{}", shard, uniq), base, order, &mut rep, true).await?;
                    rep.sample(json!({"family": "permutation", "base": name, "trace": tr, "verdict": "every listener answered as the oracle demands"}), 2);
                }
            }
        }
        // ---------------- sampled larger scenarios
        if only_base.is_none() {
            for _ in 0..n_sampled {
                // one scenario in twelve is a crowd: up to 40 listeners sharing one or two keys
                let crowd = r.gen_range(0..12) == 0;
                let base = if crowd { gen_base(&mut r, 40, 2, 5) } else { gen_base(&mut r, 6, 3, 9) };
                if crowd {
                    rep.count("crowd_scenarios(17..40 listeners)", 1);
                    rep.shape(format!("crowd/{}-listeners", base.events.iter().filter(|e| matches!(e, Ev::Listen { .. })).count() / 10 * 10));
                }
                let mut order = base.events.clone();
                order.shuffle(&mut r);
                uniq += 1;
                n_on_actor += 1;
                if n_on_actor % 500 == 0 {
                    cfg = ConfigActor::new().start();
                }
                rep.evaluations += 1;
                rep.count("orders_sampled", 1);
                let (v, trace) = run_order(&cfg, format!("{}y{}", shard, uniq), &base, &order, &mut rep, false).await?;
                absorb(&mut rep, &v);
                for (sig, d) in v.viol {
                    rep.violation(sig, json!({"family": "sampled larger scenario", "initially_present": base.init, "order": order.iter().map(|e| e.to_json()).collect::<Vec<_>>(), "trace": trace, "detail": d}));
                }
            }
        }
        // ---------------- real-time family (short deadlines, the actor's own 500 ms tick)
        if only_base.is_none() && n_timed > 0 {
            let batch = 150usize;
            let mut done = 0u64;
            let mut confirmed: BTreeSet<String> = BTreeSet::new();
            let mut rerun_budget = 4;
            let mut fam = 0usize;
            while done < n_timed {
                let cfg_t = ConfigActor::new().start();
                let n = batch.min((n_timed - done) as usize);
                let mut futs = vec![];
                let mut scs = vec![];
                for _ in 0..n {
                    let sc = gen_timed(&mut r, fam);
                    fam += 1;
                    uniq += 1;
                    scs.push(sc.clone());
                    futs.push(run_timed(cfg_t.clone(), format!("{}t{}", shard, uniq), sc));
                }
                let results = futures_util::future::join_all(futs).await;
                for (i, res) in results.into_iter().enumerate() {
                    let (v, trace, evs) = res?;
                    rep.evaluations += 1;
                    rep.count("timed_scenarios", 1);
                    absorb(&mut rep, &v);
                    for (sig, d) in v.viol {
                        rep.violation(sig, json!({"family": "real-time scenario", "events": evs, "trace": trace, "detail": d}));
                    }
                    if !v.late.is_empty() {
                        // a late answer counts only if it is reproduced three times in a row on a quiet actor; at most
                        // `rerun_budget` scenarios per process are re-run, a confirmed signature is not re-run again
                        let sig = v.late[0].0.clone();
                        if confirmed.contains(&sig) {
                            rep.violation(sig, json!({"family": "real-time scenario", "events": evs}));
                        } else if rerun_budget == 0 {
                            rep.count("late_answer_not_rerun", 1);
                        } else {
                            rerun_budget -= 1;
                            let mut again = 0;
                            let mut last = None;
                            for rep_i in 0..3 {
                                uniq += 1;
                                let solo = ConfigActor::new().start();
                                let (v2, tr2, _) = run_timed(solo, format!("{}r{}-{}", shard, uniq, rep_i), scs[i].clone()).await?;
                                if let Some(l2) = v2.late.iter().find(|(s2, _)| *s2 == sig) {
                                    again += 1;
                                    last = Some((l2.1.clone(), tr2));
                                } else {
                                    break;
                                }
                            }
                            if again == 3 {
                                let (d, tr) = last.unwrap();
                                confirmed.insert(sig.clone());
                                rep.violation(sig, json!({"family": "real-time scenario", "events": evs, "trace": tr, "detail": d, "reproduced": "3 of 3 solo re-runs"}));
                            } else {
                                rep.count("late_answer_not_reproduced", 1);
                                rep.inconclusive.push(format!("late long-poll answer not reproduced ({} of 3): {}", again, v.late[0].1));
                            }
                        }
                    }
                    if rep.samples.len() < 4 && i == 3 {
                        rep.sample(json!({"family": "real-time", "events": evs, "trace": trace, "verdict": "answered inside the demanded window"}), 4);
                    }
                }
                done += n as u64;
            }
        }
        Ok(())
    });
    r?;
    rep.write(args)?;
    std::process::exit(0);
}
