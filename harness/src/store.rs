//! `vh store-session --dir D` — drives the real Raft file store (RaftIndexManager, RaftLogManager,
//! RaftSnapshotManager, StateApplyManager, FileStore) on one data directory through the RaftStorage API
//! plus the manager messages that compaction / snapshot installation send. Operations arrive as JSON
//! lines on stdin, every one is answered with one JSON line on stdout. A "reopen" is a new process.
use crate::util::Args;
use actix::prelude::*;
use async_raft_ext::raft::{Entry, EntryConfigChange, EntryNormal, EntryPayload, MembershipConfig};
use async_raft_ext::storage::HardState;
use async_raft_ext::RaftStorage;
use rnacos::raft::filestore::core::FileStore;
use rnacos::raft::filestore::log::SnapshotRange;
use rnacos::raft::filestore::model::{SnapshotHeaderDto, SnapshotRecordDto};
use rnacos::raft::filestore::raftapply::StateApplyManager;
use rnacos::raft::filestore::raftindex::{RaftIndexManager, RaftIndexRequest, RaftIndexResponse};
use rnacos::raft::filestore::raftlog::{RaftLogManager, RaftLogManagerRequest};
use rnacos::raft::filestore::raftsnapshot::{
    RaftSnapshotManager, RaftSnapshotRequest, RaftSnapshotResponse, SnapshotReader, SnapshotWriterRequest,
};
use rnacos::raft::filestore::StoreUtils;
use rnacos::raft::store::ClientRequest;
use serde_json::{json, Value};
use std::collections::{HashMap, HashSet};
use std::io::{BufRead, Write};
use std::sync::Arc;
use std::time::Duration;

pub fn filler(uid: u64, len: usize) -> String {
    // deterministic printable filler; no JSON escapes
    let mut s = String::with_capacity(len);
    let mut x = uid.wrapping_mul(0x9E3779B97F4A7C15) | 1;
    for _ in 0..len {
        x ^= x << 13;
        x ^= x >> 7;
        x ^= x << 17;
        s.push((b'a' + (x % 26) as u8) as char);
    }
    s
}

pub const BLANK_LEN: usize = 4294967295;

pub fn normal_entry(index: u64, term: u64, uid: u64, len: usize) -> Entry<ClientRequest> {
    if len == BLANK_LEN {
        return Entry { index, term, payload: EntryPayload::Blank };
    }
    Entry {
        index,
        term,
        payload: EntryPayload::Normal(EntryNormal {
            data: ClientRequest::ConfigSet {
                key: format!("u{:012}", uid),
                value: Arc::new(filler(uid, len)),
                config_type: None,
                desc: None,
                history_id: 0,
                history_table_id: None,
                op_time: 0,
                op_user: None,
            },
        }),
    }
}

fn set_of(v: &Value) -> HashSet<u64> {
    v.as_array().map(|a| a.iter().filter_map(|x| x.as_u64()).collect()).unwrap_or_default()
}

fn membership(v: &Value) -> MembershipConfig {
    MembershipConfig {
        members: set_of(&v["members"]),
        members_after_consensus: if v["after"].is_array() { Some(set_of(&v["after"])) } else { None },
    }
}

fn sorted(s: &HashSet<u64>) -> Vec<u64> {
    let mut v: Vec<u64> = s.iter().cloned().collect();
    v.sort();
    v
}

/// [index, term, kind, uid, len, ok]
pub fn describe(e: &Entry<ClientRequest>) -> Value {
    match &e.payload {
        EntryPayload::Blank => json!([e.index, e.term, "blank", 0, 0, true]),
        EntryPayload::Normal(n) => match &n.data {
            ClientRequest::ConfigSet { key, value, .. } => {
                let uid: u64 = key.trim_start_matches('u').parse().unwrap_or(u64::MAX);
                let ok = uid != u64::MAX && filler(uid, value.len()) == **value;
                json!([e.index, e.term, "normal", uid, value.len(), ok])
            }
            other => json!([e.index, e.term, "normal-other", format!("{:?}", other).chars().take(60).collect::<String>(), 0, false]),
        },
        EntryPayload::ConfigChange(c) => json!([e.index, e.term, "config", sorted(&c.membership.members), c.membership.members_after_consensus.as_ref().map(sorted), true]),
        EntryPayload::SnapshotPointer(p) => json!([e.index, e.term, "pointer", p.id, sorted(&p.membership.members), true]),
    }
}

pub struct Store {
    pub store: FileStore,
    pub index: Addr<RaftIndexManager>,
    pub log: Addr<RaftLogManager>,
    pub snap: Addr<RaftSnapshotManager>,
}

impl Store {
    pub fn open(dir: &str) -> Self {
        let base = Arc::new(dir.to_string());
        let index = RaftIndexManager::new(base.clone()).start();
        let log = RaftLogManager::new(base.clone(), Some(index.clone())).start();
        let snap = RaftSnapshotManager::new(base.clone(), Some(index.clone())).start();
        let apply = StateApplyManager::new().start();
        let store = FileStore::new(1, index.clone(), snap.clone(), log.clone(), apply);
        Store { store, index, log, snap }
    }

    pub async fn exec(&self, op: &Value) -> anyhow::Result<Value> {
        let name = op["op"].as_str().unwrap_or("");
        let u = |k: &str| op[k].as_u64().unwrap_or(0);
        if let Some(n) = op["apply_storm"].as_u64() {
            // the apply stream of a busy node: one fire-and-forget SaveLastAppliedLog per applied entry (exactly what
            // StateApplyManager does), running while this operation talks to the same index actor
            let idx = self.index.clone();
            let k = u("apply_k");
            actix_rt::spawn(async move {
                for _ in 0..n {
                    idx.do_send(RaftIndexRequest::SaveLastAppliedLog(k));
                    tokio::task::yield_now().await;
                }
            });
        }
        Ok(match name {
            "append" => {
                let e = normal_entry(u("index"), u("term"), u("uid"), u("len") as usize);
                self.store.append_entry_to_log(&e).await?;
                json!({})
            }
            "blank" => {
                let e = Entry { index: u("index"), term: u("term"), payload: EntryPayload::Blank };
                self.store.append_entry_to_log(&e).await?;
                json!({})
            }
            "config" => {
                let e = Entry { index: u("index"), term: u("term"), payload: EntryPayload::ConfigChange(EntryConfigChange { membership: membership(op) }) };
                self.store.append_entry_to_log(&e).await?;
                json!({})
            }
            "batch" => {
                let mut es = vec![];
                for x in op["entries"].as_array().cloned().unwrap_or_default() {
                    // [index, term, uid, len]
                    es.push(normal_entry(x[0].as_u64().unwrap(), x[1].as_u64().unwrap(), x[2].as_u64().unwrap(), x[3].as_u64().unwrap() as usize));
                }
                self.store.replicate_to_log(&es).await?;
                json!({})
            }
            "append_many" => {
                // from, n, term, uid0, lens (cycled), batch (0 = single appends)
                let lens: Vec<u64> = op["lens"].as_array().map(|a| a.iter().filter_map(|x| x.as_u64()).collect()).unwrap_or_else(|| vec![0]);
                let (from, n, term, uid0, batch) = (u("from"), u("n"), u("term"), u("uid0"), u("batch"));
                let mut done = 0;
                let mut i = 0;
                while i < n {
                    if batch == 0 {
                        let e = normal_entry(from + i, term, uid0 + i, lens[(i % lens.len() as u64) as usize] as usize);
                        if let Err(e) = self.store.append_entry_to_log(&e).await {
                            return Ok(json!({"done": done, "err": e.to_string()}));
                        }
                        i += 1;
                        done += 1;
                    } else {
                        let b = batch.min(n - i);
                        let es: Vec<_> = (0..b).map(|j| normal_entry(from + i + j, term, uid0 + i + j, lens[((i + j) % lens.len() as u64) as usize] as usize)).collect();
                        if let Err(e) = self.store.replicate_to_log(&es).await {
                            return Ok(json!({"done": done, "err": e.to_string()}));
                        }
                        i += b;
                        done += b;
                    }
                }
                json!({"done": done})
            }
            "delete_from" => {
                self.store.delete_logs_from(u("k"), None).await?;
                json!({})
            }
            "read" => {
                let es = self.store.get_log_entries(u("lo"), u("hi")).await?;
                let compact = op["compact"].as_bool().unwrap_or(false);
                if compact {
                    // summary for very long logs: count, first, last, all-ok, contiguous
                    let mut contiguous = true;
                    let mut all_ok = true;
                    let mut bad = vec![];
                    for w in es.windows(2) {
                        if w[1].index != w[0].index + 1 {
                            contiguous = false;
                        }
                    }
                    let mut digest: u64 = 0;
                    for e in &es {
                        let d = describe(e);
                        if d[5] != json!(true) {
                            all_ok = false;
                            if bad.len() < 5 { bad.push(d.clone()); }
                        }
                        digest = digest.wrapping_mul(1099511628211).wrapping_add(e.index ^ (e.term << 40) ^ d[3].as_u64().unwrap_or(7).wrapping_mul(31) ^ (d[4].as_u64().unwrap_or(0) << 20));
                    }
                    json!({"count": es.len(), "first": es.first().map(describe), "last": es.last().map(describe), "contiguous": contiguous, "all_ok": all_ok, "bad": bad, "digest": digest.to_string()})
                } else {
                    json!({"entries": es.iter().map(describe).collect::<Vec<_>>()})
                }
            }
            "initial_state" => {
                let s = self.store.get_initial_state().await?;
                json!({"last_log_index": s.last_log_index, "last_log_term": s.last_log_term, "last_applied": s.last_applied_log,
                       "term": s.hard_state.current_term, "voted_for": s.hard_state.voted_for,
                       "members": sorted(&s.membership.members), "after": s.membership.members_after_consensus.as_ref().map(sorted)})
            }
            "membership" => {
                let m = self.store.get_membership_config().await?;
                json!({"members": sorted(&m.members), "after": m.members_after_consensus.as_ref().map(sorted)})
            }
            "save_hard_state" => {
                let hs = HardState { current_term: u("term"), voted_for: op["voted_for"].as_u64() };
                self.store.save_hard_state(&hs).await?;
                json!({})
            }
            "save_member" => {
                let after = if op["after"].is_array() { Some(sorted(&set_of(&op["after"]))) } else { None };
                let addrs = if op["addrs"].is_object() {
                    let mut m = HashMap::new();
                    for (k, v) in op["addrs"].as_object().unwrap() {
                        m.insert(k.parse::<u64>()?, Arc::new(v.as_str().unwrap_or("").to_string()));
                    }
                    Some(m)
                } else {
                    None
                };
                self.index.send(RaftIndexRequest::SaveMember { member: sorted(&set_of(&op["members"])), member_after_consensus: after, node_addr: addrs }).await??;
                json!({})
            }
            "add_addr" => {
                self.index.send(RaftIndexRequest::AddNodeAddr(u("id"), Arc::new(op["addr"].as_str().unwrap_or("").to_string()))).await??;
                json!({})
            }
            "get_addr" => match self.store.get_target_addr(u("id")).await {
                Ok(a) => json!({"addr": a.as_str()}),
                Err(_) => json!({"addr": null}),
            },
            "index_info" => match self.index.send(RaftIndexRequest::LoadIndexInfo).await?? {
                RaftIndexResponse::RaftIndexInfo { raft_index, last_applied_log } => {
                    let mut addrs: Vec<(u64, String)> = raft_index.node_addrs.iter().map(|(k, v)| (*k, v.to_string())).collect();
                    addrs.sort();
                    json!({"last_applied": last_applied_log, "term": raft_index.current_term, "voted_for": raft_index.voted_for,
                        "members": raft_index.member, "after": raft_index.member_after_consensus, "addrs": addrs,
                        "logs": raft_index.logs.iter().map(|l| json!({"id": l.id, "start": l.start_index, "count": l.record_count, "split_off": l.split_off_index, "close": l.is_close, "pre_term": l.pre_term})).collect::<Vec<_>>(),
                        "snapshots": raft_index.snapshots.iter().map(|s| json!({"id": s.id, "end": s.end_index})).collect::<Vec<_>>()})
                }
                _ => json!({"err": "unexpected"}),
            },
            "save_applied" => {
                self.index.send(RaftIndexRequest::SaveLastAppliedLog(u("k"))).await??;
                json!({})
            }
            "pointer_build" | "pointer_install" => {
                let e: Entry<ClientRequest> = Entry::new_snapshot_pointer(u("index"), u("term"), u("snap_id").to_string(), membership(op));
                let rec = StoreUtils::entry_to_record(&e)?;
                let req = if name == "pointer_build" { RaftLogManagerRequest::BuildSnapshotPointerLog(rec) } else { RaftLogManagerRequest::InstallSnapshotPointerLog(rec) };
                self.log.send(req).await??;
                json!({})
            }
            "split_off" => {
                self.log.send(RaftLogManagerRequest::SplitOff(u("k"))).await??;
                json!({})
            }
            "snapshot_build" => {
                // what StateApplyManager::do_build_snapshot does, with synthetic records
                let mut node_addrs = HashMap::new();
                node_addrs.insert(1u64, Arc::new("127.0.0.1:9848".to_string()));
                let header = SnapshotHeaderDto { last_index: u("last_index"), last_term: u("last_term"), member: vec![1], member_after_consensus: vec![], node_addrs };
                let (writer, id, _path) = match self.snap.send(RaftSnapshotRequest::NewSnapshot(header)).await?? {
                    RaftSnapshotResponse::NewSnapshot(w, id, p) => (w, id, p),
                    _ => anyhow::bail!("unexpected snapshot response"),
                };
                for i in 0..u("records") {
                    let rec = SnapshotRecordDto { tree: Arc::new("T".to_string()), key: format!("s{}k{}", id, i).into_bytes(), value: filler(id * 100000 + i, u("rec_len") as usize).into_bytes(), op_type: 0 };
                    writer.send(SnapshotWriterRequest::Record(rec)).await??;
                }
                writer.send(SnapshotWriterRequest::Flush).await??;
                self.snap.send(RaftSnapshotRequest::CompleteSnapshot(SnapshotRange { id, end_index: u("last_index") })).await??;
                json!({"id": id})
            }
            "current_snapshot" => match self.store.get_current_snapshot().await? {
                Some(s) => {
                    // read it back through the real reader
                    let mut rd = SnapshotReader::init_by_file(s.snapshot).await?;
                    let mut n = 0u64;
                    let mut ok = true;
                    let mut first_key = String::new();
                    while let Some(r) = rd.read_record().await? {
                        let key = String::from_utf8_lossy(&r.key).to_string();
                        if n == 0 { first_key = key.clone(); }
                        // key s{id}k{i}
                        let parts: Vec<&str> = key.trim_start_matches('s').split('k').collect();
                        let (sid, i): (u64, u64) = (parts.first().and_then(|x| x.parse().ok()).unwrap_or(0), parts.get(1).and_then(|x| x.parse().ok()).unwrap_or(0));
                        if filler(sid * 100000 + i, r.value.len()).as_bytes() != r.value.as_slice() || i != n { ok = false; }
                        n += 1;
                    }
                    json!({"index": s.index, "term": s.term, "members": sorted(&s.membership.members), "records": n, "ok": ok, "first_key": first_key})
                }
                None => json!({"none": true}),
            },
            "sync" => {
                // barrier: everything queued by fire-and-forget sends has been processed, in-flight file writes landed
                let _ = self.store.get_log_entries(0, 1).await;
                let _ = self.index.send(RaftIndexRequest::LoadIndexInfo).await;
                let _ = self.snap.send(RaftSnapshotRequest::GetLastSnapshot).await;
                tokio::time::sleep(Duration::from_millis(u("ms").max(60))).await;
                let _ = self.store.get_log_entries(0, 1).await;
                let _ = self.index.send(RaftIndexRequest::LoadIndexInfo).await;
                json!({})
            }
            "sleep" => {
                tokio::time::sleep(Duration::from_millis(u("ms"))).await;
                json!({})
            }
            _ => json!({"err": format!("unknown op {}", name)}),
        })
    }
}

/// marker side-file: lets the write-journal shim order SUBMIT/ACK against file mutations (C04/C05)
pub struct Marker(Option<std::fs::File>);
impl Marker {
    pub fn new(path: Option<&str>) -> Self {
        Marker(path.map(|p| std::fs::OpenOptions::new().create(true).append(true).open(p).unwrap()))
    }
    pub fn mark(&mut self, s: &str) {
        if let Some(f) = &mut self.0 {
            let _ = f.write_all(s.as_bytes());
        }
    }
}

pub fn stdin_channel() -> tokio::sync::mpsc::UnboundedReceiver<String> {
    let (tx, rx) = tokio::sync::mpsc::unbounded_channel();
    std::thread::spawn(move || {
        let stdin = std::io::stdin();
        for line in stdin.lock().lines() {
            match line {
                Ok(l) => {
                    if tx.send(l).is_err() {
                        break;
                    }
                }
                Err(_) => break,
            }
        }
    });
    rx
}

pub fn run(args: &Args) -> anyhow::Result<()> {
    let dir = args.str("dir", "");
    anyhow::ensure!(!dir.is_empty(), "--dir required");
    std::fs::create_dir_all(&dir)?;
    let marker_path = args.get("marker").map(|s| s.to_string());
    let sys = actix_rt::System::new();
    sys.block_on(async move {
        let st = Store::open(&dir);
        let mut marker = Marker::new(marker_path.as_deref());
        // first round trip doubles as "recovery finished" signal
        let ready = st.exec(&json!({"op": "initial_state"})).await;
        let base_json_len = serde_json::to_vec(&normal_entry(1, 1, 0, 0).payload).map(|v| v.len()).unwrap_or(0);
        let out = std::io::stdout();
        {
            let mut o = out.lock();
            let _ = writeln!(o, "{}", json!({"ready": ready.is_ok(), "state": ready.as_ref().ok(), "err": ready.as_ref().err().map(|e| e.to_string()), "base_json_len": base_json_len}));
            let _ = o.flush();
        }
        let mut rx = stdin_channel();
        let mut n = 0u64;
        while let Some(line) = rx.recv().await {
            let op: Value = match serde_json::from_str(&line) {
                Ok(v) => v,
                Err(_) => continue,
            };
            if op["op"] == "exit" {
                break;
            }
            n += 1;
            let id = op["mid"].as_u64().unwrap_or(n);
            marker.mark(&format!("S {}\n", id));
            let r = tokio::time::timeout(Duration::from_secs(op["timeout_s"].as_u64().unwrap_or(120)), st.exec(&op)).await;
            let resp = match r {
                Ok(Ok(mut v)) => {
                    v["ok"] = json!(v.get("err").is_none());
                    marker.mark(&format!("A {}\n", id));
                    v
                }
                Ok(Err(e)) => {
                    marker.mark(&format!("E {}\n", id));
                    json!({"ok": false, "err": e.to_string()})
                }
                Err(_) => json!({"ok": false, "timeout": true}),
            };
            let mut o = out.lock();
            let _ = writeln!(o, "{}", resp);
            let _ = o.flush();
        }
    });
    Ok(())
}
