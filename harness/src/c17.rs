//! C17 function level: exhaustive evaluation of UserRole::match_url_by_roles (filled in by the C17 rig).
use crate::util::Args;

pub fn run(_args: &Args) -> anyhow::Result<()> {
    anyhow::bail!("not implemented")
}
