//! C17 function level: exhaustive evaluation of the repository's own `UserRole::match_url_by_roles`
//! (src/user/permission.rs) and of the three path predicates the console login middleware applies before it
//! (src/console/middle/login_middle.rs: IGNORE_CHECK_LOGIN, STATIC_FILE_PATH, API_PATH).
//!
//! `vh c17-func --in <json> [--out <json>]`
//!   in : {"pairs": [[path, method], ...], "role_sets": [[role, ...], ...]}
//!   out: {"evaluations": n, "role_sets": [...], "ignore_list": [...], "static_regex": "...", "api_regex": "...",
//!         "rows": [{"path","method","ignore","static","api","allow":"0101…"}]}     allow[i] <-> role_sets[i]
//! Nothing is decided here; the oracle lives in lib/c17.py.
use crate::util::Args;
use rnacos::console::middle::login_middle::{API_PATH, IGNORE_CHECK_LOGIN, STATIC_FILE_PATH};
use rnacos::user::permission::UserRole;
use serde_json::{json, Value};
use std::sync::Arc;

pub fn run(args: &Args) -> anyhow::Result<()> {
    let inp = args
        .get("in")
        .ok_or_else(|| anyhow::anyhow!("c17-func needs --in <file>"))?;
    let v: Value = serde_json::from_slice(&std::fs::read(inp)?)?;
    let pairs: Vec<(String, String)> = v["pairs"]
        .as_array()
        .ok_or_else(|| anyhow::anyhow!("pairs missing"))?
        .iter()
        .map(|p| {
            (
                p[0].as_str().unwrap_or_default().to_string(),
                p[1].as_str().unwrap_or_default().to_string(),
            )
        })
        .collect();
    let role_sets: Vec<Vec<Arc<String>>> = v["role_sets"]
        .as_array()
        .ok_or_else(|| anyhow::anyhow!("role_sets missing"))?
        .iter()
        .map(|s| {
            s.as_array()
                .map(|a| {
                    a.iter()
                        .map(|r| Arc::new(r.as_str().unwrap_or_default().to_string()))
                        .collect()
                })
                .unwrap_or_default()
        })
        .collect();
    let mut evaluations: u64 = 0;
    let mut rows = Vec::with_capacity(pairs.len());
    for (path, method) in &pairs {
        let mut allow = String::with_capacity(role_sets.len());
        for rs in &role_sets {
            let ok = UserRole::match_url_by_roles(rs, path, method);
            evaluations += 1;
            allow.push(if ok { '1' } else { '0' });
        }
        evaluations += 3;
        rows.push(json!({
            "path": path,
            "method": method,
            "ignore": IGNORE_CHECK_LOGIN.contains(&path.as_str()),
            "static": STATIC_FILE_PATH.is_match(path),
            "api": API_PATH.is_match(path),
            "allow": allow,
        }));
    }
    let out = json!({
        "evaluations": evaluations,
        "role_sets": v["role_sets"],
        "ignore_list": IGNORE_CHECK_LOGIN.iter().map(|s| s.to_string()).collect::<Vec<_>>(),
        "static_regex": STATIC_FILE_PATH.as_str(),
        "api_regex": API_PATH.as_str(),
        "rows": rows,
    });
    let s = serde_json::to_string(&out)?;
    if let Some(p) = args.get("out") {
        std::fs::write(p, s)?;
    } else {
        println!("{}", s);
    }
    Ok(())
}
