//! `vh grpc-client` — scriptable gRPC client built on rnacos's own generated tonic clients (filled in by the C16 rig).
use crate::util::Args;

pub fn run(_args: &Args) -> anyhow::Result<()> {
    anyhow::bail!("not implemented")
}
