//! `vh grpc-client` — scriptable gRPC client built on rnacos's own generated tonic clients
//! (`rnacos::grpc::nacos_proto::{request_client::RequestClient, bi_request_stream_client::BiRequestStreamClient}`).
//! Written for C16 (auth enforcement), general enough for C10 (config listen/notify) and C12 (naming register/subscribe).
//!
//! # Command protocol
//!
//! The process reads one JSON object per line on stdin and writes one JSON object per line on stdout.
//! Two kinds of output lines exist:
//!   * **answers**: exactly one per command, carrying the command's `"id"` (echoed verbatim, any JSON value) and
//!     `"ok": true|false` (`false` = the *client/transport* failed: `"error": "..."`; an application-level refusal by the
//!     server is `ok:true` with `error_code` / `result_code` set, see `request`);
//!   * **events**: asynchronous, no `"id"`, key `"event"`: `"push"`, `"stream_closed"`.
//! Every line carries `"t_ms"` (unix time, ms) and `"mono_us"` (monotonic µs since process start; same clock for all lines).
//! Commands run strictly in the order read, one at a time, except `request` with `"nowait": true` (answered when done).
//! Connections are named (`"conn"`, default `"default"`); one connection = one tonic `Channel` = one TCP connection; the
//! server derives its connection id from the TCP peer address, so the bi-stream and the unary requests of one `conn`
//! belong together (the server refuses data requests with error 301 "Connection is unregistered." on a connection without
//! an open bi-stream).
//!
//! Commands (`op`):
//!
//! * `{"op":"connect","conn":"a","addr":"127.0.0.1:9848","timeout_ms":5000}` — open the TCP/HTTP2 connection.
//!   `--addr` on the command line is the default address. Answer: `{"ok":true}`.
//!
//! * `{"op":"open_stream","conn":"a","setup":{"clientVersion":"Nacos-Rust-Client:verif","tenant":"","labels":{..}},
//!    "headers":{..},"auto_ack":true,"report":["*"],"wait_registered_ms":3000}`
//!   — start `BiRequestStream/requestBiStream`, send `ConnectionSetupRequest` (body = `setup`, default as shown; metadata
//!   headers = `headers`; `"setup": null` sends no set-up request at all), then — unless `wait_registered_ms` is 0 — poll with
//!   unary `HealthCheckRequest` until the server no longer answers 301 (the server registers the stream asynchronously).
//!   `auto_ack`: `true` (default) answers every server push `XyzRequest` with `XyzResponse {"resultCode":200,"requestId":<same>}`
//!   (this is what keeps the connection alive: `ClientDetectionRequest`); `false` answers nothing; a list of type names
//!   answers only those. `report`: list of push type names reported as events (`["*"]` = all, default).
//!   Answer: `{"ok":true,"registered":true|false,"register_wait_ms":n}`.
//!   Events afterwards: `{"event":"push","conn":"a","type":"ConfigChangeNotifyRequest","body":{..},"headers":{..},
//!   "acked":true}` and finally `{"event":"stream_closed","conn":"a","reason":"eof"|"status: .."|"client-close"}`.
//!
//! * `{"op":"request","conn":"a","type":"ConfigQueryRequest","body":{..}|"body_raw":"text","headers":{"accessToken":"t"},
//!    "client_ip":"1.2.3.4","timeout_ms":5000,"nowait":false}` — unary `Request/request` with an arbitrary type string, JSON
//!   (or raw) body and arbitrary metadata headers (`accessToken`, `Authorization`, `ClusterToken`, ...). Connects on demand.
//!   Answer: `{"ok":true,"type":"ConfigQueryResponse"|"ErrorResponse"|..,"body":{..} (or "body_raw"),"result_code":200,
//!   "error_code":0,"message":"..","resp_headers":{..},"t_call_ms":..,"t_ret_ms":..}`; `result_code`/`error_code`/`message`
//!   are copied from the body when present (null otherwise). gRPC status errors: `{"ok":false,"error":"status: ..","code":"Unavailable"}`.
//!
//! * `{"op":"stream_send","conn":"a","type":"..","body":{..},"headers":{..}}` — send an arbitrary payload on the open bi-stream.
//!
//! * `{"op":"close_stream","conn":"a","mode":"polite"|"abrupt"}` — `polite`: half-close the request stream (END_STREAM), the
//!   server sees a clean end and removes the connection; the TCP connection stays usable. `abrupt`: abort the reader, drop the
//!   stream (RST_STREAM) and drop the whole channel so the TCP connection is torn down without a gRPC-level goodbye.
//!   (For a crash-like disappearance without any close the driver can also SIGKILL this process or use `exit` with
//!   `"abrupt":true`.)
//!
//! * `{"op":"disconnect","conn":"a"}` — same as abrupt close, also forgets the connection.
//! * `{"op":"sleep","ms":100}`, `{"op":"ping"}` (answer only) — sequencing helpers.
//! * `{"op":"exit","abrupt":false}` — polite: half-close every stream, wait 100 ms, exit 0. abrupt: `process::exit(0)` at once.
//!   End of stdin = polite exit.
use crate::util::Args;
use rnacos::grpc::nacos_proto::{
    bi_request_stream_client::BiRequestStreamClient, request_client::RequestClient, Payload,
};
use rnacos::grpc::PayloadUtils;
use serde_json::{json, Map, Value};
use std::collections::HashMap;
use std::io::Write;
use std::sync::Arc;
use std::time::{Duration, Instant};
use tokio::io::AsyncBufReadExt;
use tokio::sync::mpsc;
use tokio::task::JoinHandle;
use tonic::transport::Channel;

static START: std::sync::OnceLock<Instant> = std::sync::OnceLock::new();

static STALL_UNTIL_US: std::sync::atomic::AtomicU64 = std::sync::atomic::AtomicU64::new(0);

fn mono_us() -> u64 {
    start().elapsed().as_micros() as u64
}

fn start() -> &'static Instant {
    START.get_or_init(Instant::now)
}

fn emit(mut v: Value) {
    if let Some(m) = v.as_object_mut() {
        m.insert("t_ms".into(), json!(crate::util::now_ms()));
        m.insert("mono_us".into(), json!(start().elapsed().as_micros() as u64));
    }
    let s = serde_json::to_string(&v).unwrap_or_else(|_| "{}".into());
    let out = std::io::stdout();
    let mut l = out.lock();
    let _ = l.write_all(s.as_bytes());
    let _ = l.write_all(b"\n");
    let _ = l.flush();
}

fn answer(id: &Value, mut v: Value) {
    if let Some(m) = v.as_object_mut() {
        m.insert("id".into(), id.clone());
    }
    emit(v);
}

fn headers_of(v: Option<&Value>) -> HashMap<String, String> {
    let mut h = HashMap::new();
    if let Some(Value::Object(m)) = v {
        for (k, x) in m {
            let s = match x {
                Value::String(s) => s.clone(),
                other => other.to_string(),
            };
            h.insert(k.clone(), s);
        }
    }
    h
}

fn build_payload(cmd: &Value) -> Payload {
    let t = cmd.get("type").and_then(|x| x.as_str()).unwrap_or("");
    let body = if let Some(raw) = cmd.get("body_raw").and_then(|x| x.as_str()) {
        raw.to_string()
    } else {
        match cmd.get("body") {
            Some(Value::Null) | None => "{}".to_string(),
            Some(b) => b.to_string(),
        }
    };
    let ip = cmd.get("client_ip").and_then(|x| x.as_str()).unwrap_or("127.0.0.1");
    PayloadUtils::build_full_payload(t, body, ip, headers_of(cmd.get("headers")))
}

fn payload_to_json(p: &Payload) -> Map<String, Value> {
    let mut m = Map::new();
    if let Some(meta) = &p.metadata {
        m.insert("type".into(), json!(meta.r#type));
        m.insert("resp_headers".into(), json!(meta.headers));
    } else {
        m.insert("type".into(), Value::Null);
    }
    let raw = p.body.as_ref().map(|b| b.value.clone()).unwrap_or_default();
    match serde_json::from_slice::<Value>(&raw) {
        Ok(v) => {
            m.insert("result_code".into(), v.get("resultCode").cloned().unwrap_or(Value::Null));
            m.insert("error_code".into(), v.get("errorCode").cloned().unwrap_or(Value::Null));
            m.insert("message".into(), v.get("message").cloned().unwrap_or(Value::Null));
            m.insert("body".into(), v);
        }
        Err(_) => {
            m.insert("result_code".into(), Value::Null);
            m.insert("error_code".into(), Value::Null);
            m.insert("message".into(), Value::Null);
            m.insert("body_raw".into(), json!(String::from_utf8_lossy(&raw).to_string()));
        }
    }
    m
}

type SharedTx = Arc<std::sync::Mutex<Option<mpsc::Sender<Payload>>>>;

struct Conn {
    addr: String,
    channel: Channel,
    /// the only long-lived sender of the request stream (shared with the reader task, which uses it for acks);
    /// taking it out half-closes the stream
    stream_tx: Option<SharedTx>,
    reader: Option<JoinHandle<()>>,
}

fn tx_of(s: &SharedTx) -> Option<mpsc::Sender<Payload>> {
    s.lock().ok().and_then(|g| g.as_ref().cloned())
}

struct Client {
    default_addr: String,
    conns: HashMap<String, Conn>,
}

#[derive(Clone)]
enum Sel {
    All,
    None,
    Some(Arc<Vec<String>>),
}

impl Sel {
    fn parse(v: Option<&Value>, default_all: bool) -> Sel {
        match v {
            Some(Value::Bool(true)) => Sel::All,
            Some(Value::Bool(false)) => Sel::None,
            Some(Value::Array(a)) => {
                let l: Vec<String> = a.iter().filter_map(|x| x.as_str().map(|s| s.to_string())).collect();
                if l.iter().any(|s| s == "*") {
                    Sel::All
                } else {
                    Sel::Some(Arc::new(l))
                }
            }
            _ => {
                if default_all {
                    Sel::All
                } else {
                    Sel::None
                }
            }
        }
    }
    fn has(&self, t: &str) -> bool {
        match self {
            Sel::All => true,
            Sel::None => false,
            Sel::Some(l) => l.iter().any(|s| s == t),
        }
    }
}

async fn connect(addr: &str, timeout_ms: u64) -> anyhow::Result<Channel> {
    let mut ep = Channel::from_shared(format!("http://{}", addr))?
        .tcp_nodelay(true)
        .timeout(Duration::from_secs(3600));
    // a client with small HTTP/2 receive windows (a constrained SDK): VH_GRPC_H2_WINDOW=<bytes>
    if let Some(w) = std::env::var("VH_GRPC_H2_WINDOW").ok().and_then(|v| v.parse::<u32>().ok()) {
        ep = ep.initial_stream_window_size(w).initial_connection_window_size(w);
    }
    match tokio::time::timeout(Duration::from_millis(timeout_ms), ep.connect()).await {
        Ok(Ok(c)) => Ok(c),
        Ok(Err(e)) => Err(anyhow::anyhow!("connect {}: {}", addr, e)),
        Err(_) => Err(anyhow::anyhow!("connect {}: timeout after {} ms", addr, timeout_ms)),
    }
}

async fn unary(channel: Channel, cmd: Value) -> Value {
    let timeout_ms = cmd.get("timeout_ms").and_then(|x| x.as_u64()).unwrap_or(5000);
    let payload = build_payload(&cmd);
    let mut client = RequestClient::new(channel);
    let t_call = crate::util::now_ms();
    let r = tokio::time::timeout(Duration::from_millis(timeout_ms), client.request(tonic::Request::new(payload))).await;
    let t_ret = crate::util::now_ms();
    match r {
        Err(_) => json!({"ok": false, "error": format!("timeout after {} ms", timeout_ms), "timeout": true, "t_call_ms": t_call, "t_ret_ms": t_ret}),
        Ok(Err(st)) => json!({"ok": false, "error": format!("status: {}", st.message()), "code": format!("{:?}", st.code()), "t_call_ms": t_call, "t_ret_ms": t_ret}),
        Ok(Ok(resp)) => {
            let p = resp.into_inner();
            let mut m = payload_to_json(&p);
            m.insert("ok".into(), json!(true));
            m.insert("t_call_ms".into(), json!(t_call));
            m.insert("t_ret_ms".into(), json!(t_ret));
            Value::Object(m)
        }
    }
}

impl Client {
    async fn conn(&mut self, name: &str, addr: Option<&str>, timeout_ms: u64) -> anyhow::Result<&mut Conn> {
        if !self.conns.contains_key(name) {
            let a = addr.map(|s| s.to_string()).unwrap_or_else(|| self.default_addr.clone());
            if a.is_empty() {
                anyhow::bail!("no address: give --addr or \"addr\" in connect");
            }
            let ch = connect(&a, timeout_ms).await?;
            self.conns.insert(name.to_string(), Conn { addr: a, channel: ch, stream_tx: None, reader: None });
        }
        Ok(self.conns.get_mut(name).unwrap())
    }

    async fn open_stream(&mut self, name: &str, cmd: &Value) -> anyhow::Result<Value> {
        let addr = cmd.get("addr").and_then(|x| x.as_str()).map(|s| s.to_string());
        let c = self.conn(name, addr.as_deref(), 5000).await?;
        if c.stream_tx.is_some() {
            anyhow::bail!("stream already open on conn {}", name);
        }
        let (tx, rx) = mpsc::channel::<Payload>(64);
        let mut bc = BiRequestStreamClient::new(c.channel.clone());
        let resp = tokio::time::timeout(
            Duration::from_secs(5),
            bc.request_bi_stream(tokio_stream::wrappers::ReceiverStream::new(rx)),
        )
        .await
        .map_err(|_| anyhow::anyhow!("request_bi_stream: no response headers in 5 s"))?
        .map_err(|st| anyhow::anyhow!("request_bi_stream status: {}", st.message()))?;
        let mut inbound = resp.into_inner();
        // set-up request
        let setup = match cmd.get("setup") {
            Some(Value::Null) => None,
            Some(v) => Some(v.clone()),
            None => Some(json!({"clientVersion": "Nacos-Rust-Client:verif-0.1", "tenant": "", "labels": {"source": "sdk", "module": "verif"}})),
        };
        if let Some(s) = setup {
            let p = PayloadUtils::build_full_payload("ConnectionSetupRequest", s.to_string(), "127.0.0.1", headers_of(cmd.get("headers")));
            tx.send(p).await.map_err(|_| anyhow::anyhow!("stream closed before set-up"))?;
        }
        let ack = Sel::parse(cmd.get("auto_ack"), true);
        let report = Sel::parse(cmd.get("report"), true);
        let shared: SharedTx = Arc::new(std::sync::Mutex::new(Some(tx)));
        let tx2 = shared.clone();
        let cname = name.to_string();
        let reader = tokio::spawn(async move {
            let reason;
            loop {
                // a slow consumer: while a stall is requested the inbound stream is not polled (HTTP/2 flow control then
                // pushes back on the server)
                loop {
                    let until = STALL_UNTIL_US.load(std::sync::atomic::Ordering::SeqCst);
                    let now = mono_us();
                    if now >= until {
                        break;
                    }
                    tokio::time::sleep(Duration::from_micros((until - now).min(50_000))).await;
                }
                match inbound.message().await {
                    Ok(Some(p)) => {
                        let m = payload_to_json(&p);
                        let t = m.get("type").and_then(|x| x.as_str()).unwrap_or("").to_string();
                        let mut acked = false;
                        if ack.has(&t) && t.ends_with("Request") {
                            let rid = m.get("body").and_then(|b| b.get("requestId")).cloned().unwrap_or(Value::Null);
                            let rt = format!("{}Response", &t[..t.len() - "Request".len()]);
                            let body = json!({"resultCode": 200, "errorCode": 0, "requestId": rid});
                            let rp = PayloadUtils::build_full_payload(&rt, body.to_string(), "127.0.0.1", Default::default());
                            acked = match tx_of(&tx2) {
                                Some(t) => t.send(rp).await.is_ok(),
                                None => false,
                            };
                        }
                        if report.has(&t) {
                            let mut e = Map::new();
                            e.insert("event".into(), json!("push"));
                            e.insert("conn".into(), json!(cname));
                            e.insert("type".into(), json!(t));
                            if let Some(b) = m.get("body") {
                                e.insert("body".into(), b.clone());
                            }
                            if let Some(b) = m.get("body_raw") {
                                e.insert("body_raw".into(), b.clone());
                            }
                            e.insert("headers".into(), m.get("resp_headers").cloned().unwrap_or(Value::Null));
                            e.insert("acked".into(), json!(acked));
                            emit(Value::Object(e));
                        }
                    }
                    Ok(None) => {
                        reason = "eof".to_string();
                        break;
                    }
                    Err(st) => {
                        reason = format!("status: {:?} {}", st.code(), st.message());
                        break;
                    }
                }
            }
            emit(json!({"event": "stream_closed", "conn": cname, "reason": reason}));
        });
        c.stream_tx = Some(shared);
        c.reader = Some(reader);
        // wait until the server has registered the connection
        let wait_ms = cmd.get("wait_registered_ms").and_then(|x| x.as_u64()).unwrap_or(3000);
        let mut registered = false;
        let t0 = Instant::now();
        if wait_ms > 0 {
            let ch = c.channel.clone();
            while t0.elapsed() < Duration::from_millis(wait_ms) {
                let r = unary(ch.clone(), json!({"type": "HealthCheckRequest", "body": {}, "timeout_ms": 2000})).await;
                if r.get("ok") == Some(&json!(true)) && r.get("error_code") != Some(&json!(301)) {
                    registered = true;
                    break;
                }
                tokio::time::sleep(Duration::from_millis(20)).await;
            }
        }
        Ok(json!({"ok": true, "registered": registered, "register_wait_ms": t0.elapsed().as_millis() as u64}))
    }

    fn close_stream(&mut self, name: &str, abrupt: bool, forget: bool) -> Value {
        let mut had = false;
        if let Some(c) = self.conns.get_mut(name) {
            had = c.stream_tx.is_some();
            if abrupt {
                if let Some(r) = c.reader.take() {
                    r.abort();
                }
                c.stream_tx = None;
            } else {
                // taking the shared sender out drops the last long-lived handle: the request stream ends (END_STREAM), the
                // server removes the connection and ends its side, the reader reports `stream_closed: eof`; safety abort after 3 s
                if let Some(sh) = c.stream_tx.take() {
                    if let Ok(mut g) = sh.lock() {
                        g.take();
                    }
                }
                if let Some(r) = c.reader.take() {
                    tokio::spawn(async move {
                        tokio::time::sleep(Duration::from_millis(3000)).await;
                        r.abort();
                    });
                }
            }
        }
        if abrupt || forget {
            if let Some(c) = self.conns.remove(name) {
                let addr = c.addr.clone();
                drop(c);
                if had {
                    emit(json!({"event": "stream_closed", "conn": name, "reason": "client-close", "addr": addr}));
                }
            }
        }
        json!({"ok": true, "had_stream": had})
    }
}

async fn main_loop(args: &Args) -> anyhow::Result<()> {
    let mut cl = Client { default_addr: args.str("addr", ""), conns: HashMap::new() };
    let stdin = tokio::io::BufReader::new(tokio::io::stdin());
    let mut lines = stdin.lines();
    emit(json!({"event": "ready"}));
    while let Some(line) = lines.next_line().await? {
        let line = line.trim();
        if line.is_empty() {
            continue;
        }
        let cmd: Value = match serde_json::from_str(line) {
            Ok(v) => v,
            Err(e) => {
                emit(json!({"id": null, "ok": false, "error": format!("bad command line: {}", e)}));
                continue;
            }
        };
        let id = cmd.get("id").cloned().unwrap_or(Value::Null);
        let op = cmd.get("op").and_then(|x| x.as_str()).unwrap_or("").to_string();
        let name = cmd.get("conn").and_then(|x| x.as_str()).unwrap_or("default").to_string();
        match op.as_str() {
            "ping" => answer(&id, json!({"ok": true})),
            "sleep" => {
                tokio::time::sleep(Duration::from_millis(cmd.get("ms").and_then(|x| x.as_u64()).unwrap_or(0))).await;
                answer(&id, json!({"ok": true}));
            }
            "stall_reads" => {
                // all bi-streams of this process stop reading for `ms` milliseconds (answers at once)
                let ms = cmd.get("ms").and_then(|x| x.as_u64()).unwrap_or(0);
                STALL_UNTIL_US.store(mono_us() + ms * 1000, std::sync::atomic::Ordering::SeqCst);
                answer(&id, json!({"ok": true}));
            }
            "connect" => {
                let addr = cmd.get("addr").and_then(|x| x.as_str()).map(|s| s.to_string());
                let to = cmd.get("timeout_ms").and_then(|x| x.as_u64()).unwrap_or(5000);
                match cl.conn(&name, addr.as_deref(), to).await {
                    Ok(c) => answer(&id, json!({"ok": true, "addr": c.addr})),
                    Err(e) => answer(&id, json!({"ok": false, "error": e.to_string()})),
                }
            }
            "open_stream" => match cl.open_stream(&name, &cmd).await {
                Ok(v) => answer(&id, v),
                Err(e) => answer(&id, json!({"ok": false, "error": e.to_string()})),
            },
            "request" => {
                let addr = cmd.get("addr").and_then(|x| x.as_str()).map(|s| s.to_string());
                match cl.conn(&name, addr.as_deref(), 5000).await {
                    Err(e) => answer(&id, json!({"ok": false, "error": e.to_string()})),
                    Ok(c) => {
                        let ch = c.channel.clone();
                        if cmd.get("nowait").and_then(|x| x.as_bool()).unwrap_or(false) {
                            let id2 = id.clone();
                            tokio::spawn(async move {
                                let v = unary(ch, cmd).await;
                                answer(&id2, v);
                            });
                        } else {
                            let v = unary(ch, cmd).await;
                            answer(&id, v);
                        }
                    }
                }
            }
            "stream_send" => {
                let r = match cl.conns.get(&name).and_then(|c| c.stream_tx.as_ref().and_then(tx_of)) {
                    None => json!({"ok": false, "error": "no open stream"}),
                    Some(tx) => match tx.send(build_payload(&cmd)).await {
                        Ok(_) => json!({"ok": true}),
                        Err(_) => json!({"ok": false, "error": "stream closed"}),
                    },
                };
                answer(&id, r);
            }
            "close_stream" => {
                let abrupt = cmd.get("mode").and_then(|x| x.as_str()) == Some("abrupt");
                let v = cl.close_stream(&name, abrupt, false);
                answer(&id, v);
            }
            "disconnect" => {
                let v = cl.close_stream(&name, true, true);
                answer(&id, v);
            }
            "exit" => {
                if cmd.get("abrupt").and_then(|x| x.as_bool()).unwrap_or(false) {
                    std::process::exit(0);
                }
                answer(&id, json!({"ok": true}));
                break;
            }
            other => answer(&id, json!({"ok": false, "error": format!("unknown op {:?}", other)})),
        }
    }
    // polite exit
    let names: Vec<String> = cl.conns.keys().cloned().collect();
    for n in names {
        cl.close_stream(&n, false, false);
    }
    tokio::time::sleep(Duration::from_millis(100)).await;
    Ok(())
}

pub fn run(args: &Args) -> anyhow::Result<()> {
    let _ = start();
    let rt = tokio::runtime::Builder::new_multi_thread().worker_threads(2).enable_all().build()?;
    let r = rt.block_on(main_loop(args));
    rt.shutdown_timeout(Duration::from_millis(200));
    r
}
