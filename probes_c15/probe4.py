"""node 1 killed; after detection an HTTP deregister through a survivor for a service owned by the dead node"""
import sys, os, time, json, shutil
sys.path.insert(0, os.path.join(os.path.dirname(os.path.dirname(os.path.abspath(__file__))), "lib"))
import common, procrig, c15
os.environ["VERIF_NODE_LOG"] = "info"
want = int(sys.argv[1]); victim = int(sys.argv[2]); via = int(sys.argv[3]); wait = float(sys.argv[4]); then_register_via = int(sys.argv[5]) if len(sys.argv) > 5 else 0
wd = "/tmp/c15-probe-w4"
shutil.rmtree(wd, ignore_errors=True); os.makedirs(wd)
first = procrig.Node(wd, 1, env=c15.NODE_ENV, auto_init=True)
nodes = [first] + [procrig.Node(wd, i, env=c15.NODE_ENV, join=first.grpc_addr, auto_init=False) for i in (2, 3)]
svc = None
for j in range(1000):
    if c15.service_hash("public", "DEFAULT_GROUP", "p4-%d" % j) % 6 == want:
        svc = "p4-%d" % j; break
P = "/nacos/v1/ns/instance"
prm = {"serviceName": svc, "groupName": "DEFAULT_GROUP", "namespaceId": "public", "ip": "10.0.0.1", "port": 8001, "ephemeral": "true"}
def st(n):
    if not n.alive(): return "dead"
    try:
        r = n.get(P + "/list", params={"serviceName": svc, "groupName": "DEFAULT_GROUP", "namespaceId": "public", "healthyOnly": "false"}, timeout=3)
        return sorted((h["ip"], h["weight"]) for h in (r.json() or {}).get("hosts", []))
    except OSError as e:
        return "ERR"
try:
    first.start(); time.sleep(0.8); nodes[1].start(); nodes[2].start()
    c15.wait_members(nodes, 3, 30); time.sleep(2.5)
    t0 = time.time()
    r = nodes[1].post(P, form=dict(prm, weight="2.0")); print("register via n2", r.status, r.text()); time.sleep(1.5)
    print("before kill", [st(n) for n in nodes])
    nodes[victim - 1].kill(); tk = time.time(); print("killed n%d" % victim)
    time.sleep(wait)
    r = nodes[via - 1].delete(P, params=prm)
    print("deregister via n%d at kill+%.1f" % (via, time.time() - tk), r.status, r.text()[:100])
    if then_register_via:
        r = nodes[then_register_via - 1].post(P, form=dict(prm, weight="3.0")); print("re-register via n%d" % then_register_via, r.status, r.text()[:100])
    last = None
    for i in range(45):
        cur = [st(n) for n in nodes]
        if cur != last:
            print("kill+%.1f" % (time.time() - tk), cur); last = cur
        time.sleep(1)
    nodes[victim - 1].start(); tr = time.time(); print("restarted")
    for i in range(62):
        cur = [st(n) for n in nodes]
        if cur != last:
            print("restart+%.1f" % (time.time() - tr), cur); last = cur
        time.sleep(1)
finally:
    for n in nodes: n.kill()
