"""late join: HTTP instance owned by n2 in the 2-node view, by n1 in the 3-node view; deregister via n1 right after the join"""
import sys, os, time, json, shutil
sys.path.insert(0, os.path.join(os.path.dirname(os.path.dirname(os.path.abspath(__file__))), "lib"))
import common, procrig, c15
os.environ["VERIF_NODE_LOG"] = "info"
wd = "/tmp/c15-probe-w3"
shutil.rmtree(wd, ignore_errors=True); os.makedirs(wd)
first = procrig.Node(wd, 1, env=c15.NODE_ENV, auto_init=True)
nodes = [first] + [procrig.Node(wd, i, env=c15.NODE_ENV, join=first.grpc_addr, auto_init=False) for i in (2, 3)]
want = int(sys.argv[1]) if len(sys.argv) > 1 else 3
delay = float(sys.argv[2]) if len(sys.argv) > 2 else 0.2
svc = None
for j in range(1000):
    if c15.service_hash("public", "DEFAULT_GROUP", "p3-%d" % j) % 6 == want:
        svc = "p3-%d" % j; break
P = "/nacos/v1/ns/instance"
def st(n):
    try:
        r = n.get(P + "/list", params={"serviceName": svc, "groupName": "DEFAULT_GROUP", "namespaceId": "public", "healthyOnly": "false"}, timeout=3)
        return sorted((h["ip"], h["weight"]) for h in (r.json() or {}).get("hosts", []))
    except OSError as e:
        return "ERR"
try:
    first.start(); time.sleep(0.8); nodes[1].start()
    c15.wait_members(nodes[:2], 2, 30); time.sleep(1.5)
    t0 = time.time()
    r = nodes[1].post(P, form={"serviceName": svc, "groupName": "DEFAULT_GROUP", "namespaceId": "public", "ip": "10.0.0.1", "port": 8001, "ephemeral": "true"})
    print("register via n2", r.status, r.text()); time.sleep(1.0)
    print("before join", [st(n) for n in nodes[:2]])
    nodes[2].start(); c15.wait_members(nodes, 3, 30)
    print("joined at", round(time.time() - t0, 2))
    time.sleep(delay)
    r = nodes[0].delete(P, params={"serviceName": svc, "groupName": "DEFAULT_GROUP", "namespaceId": "public", "ip": "10.0.0.1", "port": 8001, "ephemeral": "true"})
    print("deregister via n1 at", round(time.time() - t0, 2), r.status, r.text())
    last = None
    for i in range(65):
        cur = [st(n) for n in nodes]
        if cur != last:
            print(round(time.time() - t0, 2), cur); last = cur
        time.sleep(1)
finally:
    for n in nodes: n.kill()
