"""owner's periodic snapshot pull (start+15 s) overwrites its own fresher HTTP instance with a replica's older copy"""
import sys, os, time, json, shutil
sys.path.insert(0, os.path.join(os.path.dirname(os.path.dirname(os.path.abspath(__file__))), "lib"))
import common, procrig, c15
os.environ["VERIF_NODE_LOG"] = "info"
wd = "/tmp/c15-probe-w5"
shutil.rmtree(wd, ignore_errors=True); os.makedirs(wd)
binary = os.environ.get("VERIF_RNACOS_BIN"); first = procrig.Node(wd, 1, env=c15.NODE_ENV, auto_init=True, binary=binary)
nodes = [first] + [procrig.Node(wd, i, env=c15.NODE_ENV, join=first.grpc_addr, auto_init=False, binary=os.environ.get("VERIF_RNACOS_BIN")) for i in (2, 3)]
P = "/nacos/v1/ns/instance"
svcs = []
for j in range(4000):
    if c15.service_hash("public", "DEFAULT_GROUP", "p5-%d" % j) % 3 == 2:      # owner n3
        svcs.append("p5-%d" % j)
    if len(svcs) >= 40: break
def prm(svc): return {"serviceName": svc, "groupName": "DEFAULT_GROUP", "namespaceId": "public", "ip": "10.0.0.1", "port": 8001, "ephemeral": "true"}
def st(n, svc):
    r = n.get(P + "/list", params={"serviceName": svc, "groupName": "DEFAULT_GROUP", "namespaceId": "public", "healthyOnly": "false"}, timeout=3)
    return [h["weight"] for h in (r.json() or {}).get("hosts", [])]
try:
    first.start(); time.sleep(0.8); nodes[1].start(); nodes[2].start(); t3 = time.time()
    c15.wait_members(nodes, 3, 30)
    for s in svcs:
        nodes[2].post(P, form=dict(prm(s), weight="2.0"))
    time.sleep(2)
    # find n3's "UpdateNodes" time in its log -> pull at +15 s
    import re, datetime
    tu = None
    for line in open(os.path.join(wd, "n3.log"), errors="replace"):
        if "InnerNodeManage UpdateNodes,size:" in line and not line.rstrip().endswith("size:0"):
            m = re.match(r"\[(\S+ \S+) ", line)
            tu = datetime.datetime.strptime(m.group(1)[:26], "%Y-%m-%d %H:%M:%S.%f").replace(tzinfo=datetime.timezone.utc).timestamp()
            break
    print("n3 first UpdateNodes at +%.2f s after its start" % (tu - t3))
    pull = tu + 15.0
    # one weight update per service, spread over the 600 ms before the pull, sent straight to the owner n3
    for i, s in enumerate(svcs):
        target = pull - 0.6 + i * 0.015
        d = target - time.time()
        if d > 0: time.sleep(d)
        procrig.http(nodes[2].http_port, "PUT", P, form=dict(prm(s), weight="7.0"))
    print("writes done at pull%+.3f" % (time.time() - pull))
    time.sleep(5)
    bad = []
    for s in svcs:
        v = [st(n, s) for n in nodes]
        if len({str(x) for x in v}) > 1: bad.append((s, v))
    print("diverged after 5 s:", len(bad), bad[:5])
    time.sleep(40)
    bad2 = [(s, [st(n, s) for n in nodes]) for s, _ in bad]
    print("still diverged after 45 s:", [b for b in bad2 if len({str(x) for x in b[1]}) > 1][:5])
finally:
    for n in nodes: n.kill()
