"""RC3 echo remove: service owned by n1 (first in the node list). register via n3 (forwarded), deregister via n2 (forwarded)
right after, re-register via n3 `gap` s later.  No fault at all."""
import sys, os, time, json, shutil
sys.path.insert(0, os.path.join(os.path.dirname(os.path.dirname(os.path.abspath(__file__))), "lib"))
import common, procrig, c15
gap = float(sys.argv[1]) if len(sys.argv) > 1 else 0.6
owner_res = int(sys.argv[2]) if len(sys.argv) > 2 else 0
binary = os.environ.get("VERIF_RNACOS_BIN")
wd = "/tmp/c15-probe-w8"
shutil.rmtree(wd, ignore_errors=True); os.makedirs(wd)
first = procrig.Node(wd, 1, env=c15.NODE_ENV, auto_init=True, binary=binary)
nodes = [first] + [procrig.Node(wd, i, env=c15.NODE_ENV, join=first.grpc_addr, auto_init=False, binary=binary) for i in (2, 3)]
P = "/nacos/v1/ns/instance"
svcs = []
for j in range(4000):
    if c15.service_hash("public", "DEFAULT_GROUP", "p8-%d" % j) % 3 == owner_res:
        svcs.append("p8-%d" % j)
    if len(svcs) >= 10: break
def prm(svc): return {"serviceName": svc, "groupName": "DEFAULT_GROUP", "namespaceId": "public", "ip": "10.0.0.1", "port": 8001, "ephemeral": "true"}
def st(n, svc):
    r = n.get(P + "/list", params={"serviceName": svc, "groupName": "DEFAULT_GROUP", "namespaceId": "public", "healthyOnly": "false"}, timeout=3)
    return [h["weight"] for h in (r.json() or {}).get("hosts", [])]
try:
    first.start(); time.sleep(0.8); nodes[1].start(); nodes[2].start()
    c15.wait_members(nodes, 3, 30); time.sleep(3)
    via_a, via_b = [n for n in nodes if n.id != owner_res + 1]
    lost = 0
    for s in svcs:
        r1 = via_b.post(P, form=prm(s)); r2 = via_a.delete(P, params=prm(s)); time.sleep(gap); r3 = via_b.post(P, form=dict(prm(s), weight="3.0"))
        assert r1.status == r2.status == r3.status == 200
        time.sleep(0.3)
    time.sleep(3)
    res = {s: [st(n, s) for n in nodes] for s in svcs}
    lost = [s for s, v in res.items() if all(x == [] for x in v)]
    print("owner n%d, gap %.2f s: %d of %d acknowledged re-registrations lost on all nodes; others: %s" % (owner_res + 1, gap, len(lost), len(svcs),
          sorted({str(v) for s, v in res.items() if s not in lost})))
finally:
    for n in nodes: n.kill()
