import sys, os, time, json, shutil
sys.path.insert(0, os.path.join(os.path.dirname(os.path.dirname(os.path.abspath(__file__))), "lib"))
import common, procrig, grpcrig, c15
binary = os.environ.get("VERIF_RNACOS_BIN")
wd = "/tmp/c15-probe-w9"
shutil.rmtree(wd, ignore_errors=True); os.makedirs(wd)
first = procrig.Node(wd, 1, env=c15.NODE_ENV, auto_init=True, binary=binary)
nodes = [first] + [procrig.Node(wd, i, env=c15.NODE_ENV, join=first.grpc_addr, auto_init=False, binary=binary) for i in (2, 3)]
P = "/nacos/v1/ns/instance"; svc = "p9"
def st(n):
    if not n.alive(): return "dead"
    r = n.get(P + "/list", params={"serviceName": svc, "groupName": "DEFAULT_GROUP", "namespaceId": "public", "healthyOnly": "false"}, timeout=3)
    return [h["ip"] for h in (r.json() or {}).get("hosts", [])]
g = None
try:
    first.start(); time.sleep(0.8); nodes[1].start(); nodes[2].start(); c15.wait_members(nodes, 3, 30); time.sleep(2)
    g = grpcrig.GrpcClient(nodes[1].grpc_addr, wd, name="g"); g.open_stream("a")
    r = g.request("a", "InstanceRequest", {"namespace": "public", "serviceName": svc, "groupName": "DEFAULT_GROUP", "type": "registerInstance",
        "instance": {"ip": "10.0.0.2", "port": 8002, "weight": 1.0, "healthy": True, "enabled": True, "ephemeral": True, "clusterName": "DEFAULT", "serviceName": svc, "metadata": {}}})
    time.sleep(float(sys.argv[1]) if len(sys.argv) > 1 else 1.5)
    print("before kill", [st(n) for n in nodes]); nodes[1].kill(); tk = time.time(); g.stop(abrupt=True); g = None
    last = None
    for i in range(40):
        cur = [st(n) for n in nodes]
        if cur != last: print("kill+%.1f" % (time.time() - tk), cur); last = cur
        time.sleep(1)
finally:
    if g: g.stop(abrupt=True)
    for n in nodes: n.kill()
