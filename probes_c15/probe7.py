"""mixed address. (a) gRPC register + deregister inside one 500 ms batch of the holder on top of an HTTP instance owned elsewhere
(b) HTTP write (owner nA) and gRPC register (node nB) with different weights inside each other's batch window"""
import sys, os, time, json, shutil
sys.path.insert(0, os.path.join(os.path.dirname(os.path.dirname(os.path.abspath(__file__))), "lib"))
import common, procrig, grpcrig, c15
wd = "/tmp/c15-probe-w7"
shutil.rmtree(wd, ignore_errors=True); os.makedirs(wd)
cl = procrig.Cluster(wd, 3, env=c15.NODE_ENV)
P = "/nacos/v1/ns/instance"
def find(res3, pre):
    for j in range(1000):
        if c15.service_hash("public", "DEFAULT_GROUP", "%s-%d" % (pre, j)) % 3 == res3:
            return "%s-%d" % (pre, j)
def prm(svc): return {"serviceName": svc, "groupName": "DEFAULT_GROUP", "namespaceId": "public", "ip": "10.0.0.1", "port": 8001, "ephemeral": "true"}
def st(n, svc):
    r = n.get(P + "/list", params={"serviceName": svc, "groupName": "DEFAULT_GROUP", "namespaceId": "public", "healthyOnly": "false"}, timeout=3)
    return sorted((h["ip"], h["weight"]) for h in (r.json() or {}).get("hosts", []))
def body(svc, typ, w=1.0):
    return {"namespace": "public", "serviceName": svc, "groupName": "DEFAULT_GROUP", "type": typ,
            "instance": {"ip": "10.0.0.1", "port": 8001, "weight": w, "healthy": True, "enabled": True, "ephemeral": True, "clusterName": "DEFAULT", "serviceName": svc, "metadata": {}}}
g = None
try:
    cl.start(); time.sleep(2.5)
    n1, n2, n3 = cl.nodes
    g = grpcrig.GrpcClient(n3.grpc_addr, wd, name="g3"); g.open_stream("a")
    # (a)
    sa = find(0, "p7a")       # owner n1
    r = n1.post(P, form=dict(prm(sa), weight="2.0")); time.sleep(1.2)
    print("(a) HTTP instance owned by n1:", [st(n, sa) for n in cl.nodes])
    r1 = g.request("a", "InstanceRequest", body(sa, "registerInstance", 1.0)); r2 = g.request("a", "InstanceRequest", body(sa, "deregisterInstance"))
    print("    gRPC register + deregister on n3 within", r2["t_ret_ms"] - r1["t_call_ms"], "ms:", r1["result_code"], r2["result_code"])
    for t in (1.5, 15, 30, 62):
        time.sleep(t if t == 1.5 else 14 if t < 62 else 32); print("    +%ss" % t, [st(n, sa) for n in cl.nodes])
    # (b)
    ok = 0
    for i in range(12):
        sb = find(1, "p7b%d" % i)  # owner n2
        g.cmd("request", conn="a", type="InstanceRequest", body=body(sb, "registerInstance", 6.0), nowait=False)
        n2.post(P, form=dict(prm(sb), weight="2.0"))
        time.sleep(0.13)
    time.sleep(20)
    div = []
    for i in range(12):
        sb = find(1, "p7b%d" % i)
        v = [st(n, sb) for n in cl.nodes]
        if len({str(x) for x in v}) > 1: div.append((sb, v))
    print("(b) gRPC register(weight 6) on n3 then HTTP register(weight 2) via owner n2, 12 services; diverged after 20 s:", len(div), div[:3])
finally:
    if g: g.stop()
    cl.kill_all()
