"""RC1b: after a late join moved the routing owner from n2 to n1, a deregister FORWARDED BY the old owner n2 followed by a
re-registration: n2's local courtesy delete is broadcast 500 ms later and removes the newer registration everywhere"""
import sys, os, time, json, shutil
sys.path.insert(0, os.path.join(os.path.dirname(os.path.dirname(os.path.abspath(__file__))), "lib"))
import common, procrig, c15
wd = "/tmp/c15-probe-w6"
shutil.rmtree(wd, ignore_errors=True); os.makedirs(wd)
first = procrig.Node(wd, 1, env=c15.NODE_ENV, auto_init=True)
nodes = [first] + [procrig.Node(wd, i, env=c15.NODE_ENV, join=first.grpc_addr, auto_init=False) for i in (2, 3)]
svc = None
for j in range(1000):
    if c15.service_hash("public", "DEFAULT_GROUP", "p6-%d" % j) % 6 == 3:    # owner n2 under {1,2}, n1 under {1,2,3}
        svc = "p6-%d" % j; break
P = "/nacos/v1/ns/instance"
prm = {"serviceName": svc, "groupName": "DEFAULT_GROUP", "namespaceId": "public", "ip": "10.0.0.1", "port": 8001, "ephemeral": "true"}
def st(n):
    r = n.get(P + "/list", params={"serviceName": svc, "groupName": "DEFAULT_GROUP", "namespaceId": "public", "healthyOnly": "false"}, timeout=3)
    return sorted((h["ip"], h["weight"]) for h in (r.json() or {}).get("hosts", []))
try:
    first.start(); time.sleep(0.8); nodes[1].start()
    c15.wait_members(nodes[:2], 2, 30); time.sleep(1.5)
    r = nodes[1].post(P, form=prm); print("register via n2 (owner under {1,2})", r.status, r.text()); time.sleep(1.0)
    nodes[2].start(); c15.wait_members(nodes, 3, 30); time.sleep(5.0)      # well after the join: no race with the join itself
    t0 = time.time()
    print("5 s after the join", [st(n) for n in nodes])
    r = nodes[1].delete(P, params=prm); print("deregister via n2 -> forwarded to the new owner n1:", r.status, r.text())
    r = nodes[2].post(P, form=dict(prm, weight="3.0")); print("register (weight 3) via n3 -> forwarded to n1:", r.status, r.text())
    last = None
    for i in range(62):
        cur = [st(n) for n in nodes]
        if cur != last:
            print("+%.1f s" % (time.time() - t0), cur); last = cur
        time.sleep(1)
finally:
    for n in nodes: n.kill()
