/* LD_PRELOAD write-journal interposer (Rig C). Records, in one global order, every mutation a process issues on files
 * under $VERIF_JOURNAL_DIR: write / pwrite64 / ftruncate / rename / unlink / creating or truncating open.
 * Journal file: $VERIF_JOURNAL. Record = one text header line, W records are followed by the raw bytes and '\n'.
 *   W <seq> <offset> <len> <path>\n<bytes>\n      T <seq> <len> <path>\n      U <seq> <path>\n
 *   R <seq> <old>\t<new>\n                          C <seq> <path>\n  (file created or truncated by open)
 * Writes to a file whose name ends in ".marker" are recorded as  M <seq> <text>\n  (SUBMIT/ACK markers of the session).
 * Build: gcc -O2 -shared -fPIC -o journal.so journal.c -ldl -lpthread */
#define _GNU_SOURCE
#include <dlfcn.h>
#include <fcntl.h>
#include <pthread.h>
#include <stdarg.h>
#include <stdio.h>
#include <stdlib.h>
#include <string.h>
#include <sys/stat.h>
#include <sys/types.h>
#include <unistd.h>

static ssize_t (*real_write)(int, const void *, size_t);
static ssize_t (*real_pwrite64)(int, const void *, size_t, off_t);
static int (*real_ftruncate64)(int, off_t);
static int (*real_ftruncate)(int, off_t);
static int (*real_rename)(const char *, const char *);
static int (*real_unlink)(const char *);
static int (*real_open64)(const char *, int, ...);
static int (*real_open)(const char *, int, ...);
static int (*real_openat)(int, const char *, int, ...);
static int (*real_openat64)(int, const char *, int, ...);

static int jfd = -1;
static char jdir[1024];
static size_t jdir_len;
static unsigned long seq;
static pthread_mutex_t mu = PTHREAD_MUTEX_INITIALIZER;
static int inited;

static void init(void) {
    if (inited) return;
    inited = 1;
    real_write = dlsym(RTLD_NEXT, "write");
    real_pwrite64 = dlsym(RTLD_NEXT, "pwrite64");
    real_ftruncate64 = dlsym(RTLD_NEXT, "ftruncate64");
    real_ftruncate = dlsym(RTLD_NEXT, "ftruncate");
    real_rename = dlsym(RTLD_NEXT, "rename");
    real_unlink = dlsym(RTLD_NEXT, "unlink");
    real_open64 = dlsym(RTLD_NEXT, "open64");
    real_open = dlsym(RTLD_NEXT, "open");
    real_openat = dlsym(RTLD_NEXT, "openat");
    real_openat64 = dlsym(RTLD_NEXT, "openat64");
    const char *d = getenv("VERIF_JOURNAL_DIR");
    const char *j = getenv("VERIF_JOURNAL");
    if (d && j) {
        strncpy(jdir, d, sizeof(jdir) - 1);
        jdir_len = strlen(jdir);
        jfd = real_open64 ? real_open64(j, O_WRONLY | O_CREAT | O_APPEND | O_CLOEXEC, 0644) : -1;
    }
}

static int in_dir(const char *p) { return jfd >= 0 && jdir_len > 0 && strncmp(p, jdir, jdir_len) == 0 && (p[jdir_len] == '/' || p[jdir_len] == 0); }

static int fd_path(int fd, char *out, size_t n) {
    char link[64];
    snprintf(link, sizeof link, "/proc/self/fd/%d", fd);
    ssize_t r = readlink(link, out, n - 1);
    if (r <= 0) return 0;
    out[r] = 0;
    return 1;
}

static void jwrite(const char *hdr, const void *data, size_t len) {
    real_write(jfd, hdr, strlen(hdr));
    if (data) {
        const char *p = data;
        size_t left = len;
        while (left > 0) {
            ssize_t w = real_write(jfd, p, left);
            if (w <= 0) break;
            p += w;
            left -= w;
        }
        real_write(jfd, "\n", 1);
    }
}

static int is_marker(const char *p) {
    size_t n = strlen(p);
    return n > 7 && strcmp(p + n - 7, ".marker") == 0;
}

static void log_write(int fd, const void *buf, ssize_t n, off_t off) {
    char path[1024], hdr[1400];
    if (n <= 0 || !fd_path(fd, path, sizeof path) || !in_dir(path)) return;
    pthread_mutex_lock(&mu);
    if (is_marker(path)) {
        snprintf(hdr, sizeof hdr, "M %lu ", ++seq);
        real_write(jfd, hdr, strlen(hdr));
        real_write(jfd, buf, n);
        if (((const char *)buf)[n - 1] != '\n') real_write(jfd, "\n", 1);
    } else {
        snprintf(hdr, sizeof hdr, "W %lu %lld %zd %s\n", ++seq, (long long)off, n, path);
        jwrite(hdr, buf, n);
    }
    pthread_mutex_unlock(&mu);
}

ssize_t write(int fd, const void *buf, size_t count) {
    init();
    off_t off = -1;
    if (jfd >= 0 && fd != jfd) off = lseek(fd, 0, SEEK_CUR);
    ssize_t r = real_write(fd, buf, count);
    if (jfd >= 0 && fd != jfd && r > 0) {
        int fl = fcntl(fd, F_GETFL);
        if (fl >= 0 && (fl & O_APPEND)) {
            off_t end = lseek(fd, 0, SEEK_CUR);
            off = end - r;
        }
        log_write(fd, buf, r, off);
    }
    return r;
}

ssize_t pwrite64(int fd, const void *buf, size_t count, off_t off) {
    init();
    ssize_t r = real_pwrite64(fd, buf, count, off);
    if (jfd >= 0 && r > 0) log_write(fd, buf, r, off);
    return r;
}
ssize_t pwrite(int fd, const void *buf, size_t count, off_t off) { return pwrite64(fd, buf, count, off); }

static void log_trunc(int fd, off_t len) {
    char path[1024], hdr[1400];
    if (!fd_path(fd, path, sizeof path) || !in_dir(path)) return;
    pthread_mutex_lock(&mu);
    snprintf(hdr, sizeof hdr, "T %lu %lld %s\n", ++seq, (long long)len, path);
    jwrite(hdr, NULL, 0);
    pthread_mutex_unlock(&mu);
}

int ftruncate64(int fd, off_t len) {
    init();
    int r = real_ftruncate64(fd, len);
    if (r == 0 && jfd >= 0) log_trunc(fd, len);
    return r;
}
int ftruncate(int fd, off_t len) {
    init();
    int r = real_ftruncate ? real_ftruncate(fd, len) : real_ftruncate64(fd, len);
    if (r == 0 && jfd >= 0) log_trunc(fd, len);
    return r;
}

static void abs_path(const char *p, char *out, size_t n) {
    if (p[0] == '/') { strncpy(out, p, n - 1); out[n - 1] = 0; return; }
    char cwd[512];
    if (!getcwd(cwd, sizeof cwd)) cwd[0] = 0;
    snprintf(out, n, "%s/%s", cwd, p);
}

int rename(const char *a, const char *b) {
    init();
    int r = real_rename(a, b);
    if (r == 0 && jfd >= 0) {
        char pa[1024], pb[1024], hdr[2400];
        abs_path(a, pa, sizeof pa);
        abs_path(b, pb, sizeof pb);
        if (in_dir(pa) || in_dir(pb)) {
            pthread_mutex_lock(&mu);
            snprintf(hdr, sizeof hdr, "R %lu %s\t%s\n", ++seq, pa, pb);
            jwrite(hdr, NULL, 0);
            pthread_mutex_unlock(&mu);
        }
    }
    return r;
}

int unlink(const char *p) {
    init();
    int r = real_unlink(p);
    if (r == 0 && jfd >= 0) {
        char pa[1024], hdr[1400];
        abs_path(p, pa, sizeof pa);
        if (in_dir(pa)) {
            pthread_mutex_lock(&mu);
            snprintf(hdr, sizeof hdr, "U %lu %s\n", ++seq, pa);
            jwrite(hdr, NULL, 0);
            pthread_mutex_unlock(&mu);
        }
    }
    return r;
}

static void log_open(const char *p, int flags, int existed, int fd) {
    if (fd < 0 || jfd < 0) return;
    if (!((flags & O_CREAT) && !existed) && !(flags & O_TRUNC)) return;
    char pa[1024], hdr[1400];
    abs_path(p, pa, sizeof pa);
    if (!in_dir(pa)) return;
    pthread_mutex_lock(&mu);
    snprintf(hdr, sizeof hdr, "C %lu %s\n", ++seq, pa);
    jwrite(hdr, NULL, 0);
    pthread_mutex_unlock(&mu);
}

#define OPEN_BODY(REAL, ...)                                   \
    init();                                                    \
    mode_t mode = 0;                                           \
    if (flags & (O_CREAT | O_TMPFILE)) {                       \
        va_list ap;                                            \
        va_start(ap, flags);                                   \
        mode = va_arg(ap, mode_t);                             \
        va_end(ap);                                            \
    }                                                          \
    int existed = 1;                                           \
    if (jfd >= 0 && (flags & (O_CREAT | O_TRUNC))) {           \
        struct stat st;                                        \
        existed = (stat(path, &st) == 0);                      \
    }                                                          \
    int fd = REAL(__VA_ARGS__, flags, mode);                   \
    log_open(path, flags, existed, fd);                        \
    return fd;

int open64(const char *path, int flags, ...) { OPEN_BODY(real_open64, path) }
int open(const char *path, int flags, ...) { OPEN_BODY(real_open, path) }
int openat64(int dirfd, const char *path, int flags, ...) { OPEN_BODY(real_openat64, dirfd, path) }
int openat(int dirfd, const char *path, int flags, ...) { OPEN_BODY(real_openat, dirfd, path) }
