#!/usr/bin/env python3
"""Regenerates section 9 of DESIGN.md (between the SEEDED-TABLE markers) from seeded/*/meta.json."""
import glob
import json
import os
import re

HERE = os.path.dirname(os.path.abspath(__file__))


def short(s, n):
    s = re.sub(r"\s+", " ", s or "").replace("|", "/")
    return s if len(s) <= n else s[:n - 1].rstrip() + "…"


def main():
    rows = []
    for d in sorted(glob.glob(os.path.join(HERE, "seeded", "*"))):
        sid = os.path.basename(d)
        mp = os.path.join(d, "meta.json")
        am = {}
        if os.path.exists(os.path.join(d, "agent_meta.json")):
            try:
                am = json.load(open(os.path.join(d, "agent_meta.json")))
            except ValueError:
                am = {}
        if not os.path.exists(mp):
            rows.append((sid, short(am.get("summary"), 170), short(am.get("needs_to_manifest"), 150), "not evaluated yet", "", ""))
            continue
        m = json.load(open(mp))
        c = m.get("confirmation", {})
        conf = "tests pass: %s; demo fails with / passes without: %s / %s" % (
            "yes" if c.get("existing_tests_pass_with_change") else "NO", "yes" if c.get("demo_fails_with_change") else "NO", "yes" if c.get("demo_passes_without_change") else "NO")
        caught = ", ".join(m.get("caught_by") or []) or "**not caught**"
        sigs = []
        for r in m.get("checks_run", []):
            for v in r.get("violations", [])[:2]:
                sigs.append("%s: `%s`" % (r["check"], short(v, 90)))
        earlier = m.get("earlier_runs") or []
        hist = ""
        if earlier and not (earlier[0].get("caught_by")) and m.get("caught_by"):
            hist = "missed at first; caught after the check was strengthened"
        elif earlier and earlier[0].get("caught_by") and set(earlier[0]["caught_by"]) != set(m.get("caught_by") or []):
            hist = "first run: %s" % ", ".join(earlier[0]["caught_by"])
        rows.append((sid, short(m.get("summary") or am.get("summary"), 170), short(m.get("needs_to_manifest") or am.get("needs_to_manifest"), 150), caught, "; ".join(sigs[:3]), (conf + ("; " + hist if hist else ""))))
    lines = ["| id | change | needs | caught by | first signatures | confirmation |", "|---|---|---|---|---|---|"]
    for r in rows:
        lines.append("| %s |" % " | ".join(r))
    table = "\n".join(lines)
    p = os.path.join(HERE, "DESIGN.md")
    s = open(p).read()
    a, b = "<!-- SEEDED-TABLE-BEGIN -->", "<!-- SEEDED-TABLE-END -->"
    if a not in s:
        raise SystemExit("markers missing in DESIGN.md")
    s = s[:s.index(a) + len(a)] + "\n" + table + "\n" + s[s.index(b):]
    open(p, "w").write(s)
    n_c = sum(1 for r in rows if "not caught" not in r[3] and "not evaluated" not in r[3])
    print("rows", len(rows), "caught", n_c)


if __name__ == "__main__":
    main()
