#!/usr/bin/env python3
"""Confirm and evaluate seeded changes (seeded/<id>/patch.diff [+ demo.patch]) in scratch slots, never in /repo.
For each change: (1) existing unit tests still pass with the change, (2) the demonstration fails with it and passes
without it, (3) which registered checks report a VIOLATION. Result -> seeded/<id>/meta.json.

  tools_seeded.py <slot> <id> [<id> ...]      e.g.  tools_seeded.py A c02-1 c02-2
"""
import json
import os
import re
import subprocess
import sys
import time

VERIF = os.path.dirname(os.path.abspath(__file__))
sys.path.insert(0, VERIF)
import tools_mutant  # noqa: E402

# which checks are run against a change seeded for a property (its own first)
RELATED = {
    "c01": ["C01", "C07", "C02", "C19"], "c02": ["C02", "C03", "C20"], "c03": ["C03", "C02", "C04"], "c04": ["C04", "C05", "C02"], "c05": ["C05", "C04", "C07"],
    "c06": ["C06", "C07", "C05", "C03"], "c07": ["C07", "C01", "C08", "C06"], "c08": ["C08", "C01", "C04"], "c09": ["C09", "C01", "C06"], "c10": ["C10"], "c11": ["C11", "C12"], "c12": ["C12", "C11", "C01"],
    "c13": ["C13", "C14", "C01"], "c14": ["C14"], "c15": ["C15", "C12"], "c16": ["C16"], "c17": ["C17"], "c18": ["C18"], "c19": ["C19", "C01", "C07"], "c20": ["C20", "C02"],
}


def sh(cmd, **kw):
    return subprocess.run(cmd, stdout=subprocess.PIPE, stderr=subprocess.STDOUT, text=True, **kw)


def nextest(repo, target, flt=None, timeout=2400):
    env = dict(os.environ)
    env.update({"CARGO_TARGET_DIR": target, "CARGO_NET_OFFLINE": "true"})
    cmd = ["cargo", "nextest", "run", "-p", "rnacos", "--offline", "--no-fail-fast", "--test-threads", "6"]
    if flt:
        cmd += flt
    p = sh(cmd, cwd=repo, env=env, timeout=timeout)
    out = p.stdout
    m = re.search(r"(\d+) tests? run: (\d+) passed(?:.*?(\d+) failed)?", out)
    failed = sorted(set(re.findall(r"^\s+FAIL \[[^\]]*\] (?:\(\S+\) )?(\S+ \S+)", out, re.M)))
    return {"run": int(m.group(1)) if m else None, "passed": int(m.group(2)) if m else None, "failed_names": failed,
            "compile_error": "error: could not compile" in out or "error[E" in out, "tail": out[-600:] if not m else ""}


def confirm(slot, sid):
    base, repo, verif = tools_mutant.ensure_slot(slot)
    d = os.path.join(VERIF, "seeded", sid)
    target = os.path.join(base, "repo-target")
    if not os.path.isdir(target):
        sh(["cp", "-a", "/repo/target", target])
    patch = os.path.join(d, "patch.diff")
    demo = os.path.join(d, "demo.patch")
    res = {"id": sid}
    sh(["git", "-C", repo, "checkout", "-q", "--", "."])
    sh(["git", "-C", repo, "clean", "-fdq"])
    r = sh(["git", "-C", repo, "apply", "--whitespace=nowarn", patch])
    if r.returncode != 0:
        res["error"] = "patch.diff does not apply: " + r.stdout[-300:]
        return res
    script = next((os.path.join(d, f) for f in ("demo.sh", "demo.py", "run_demo.sh") if os.path.exists(os.path.join(d, f))), None)
    has_demo = os.path.exists(demo)
    if has_demo:
        r = sh(["git", "-C", repo, "apply", "--whitespace=nowarn", demo])
        if r.returncode != 0:
            res["demo_error"] = "demo.patch does not apply on top of patch.diff: " + r.stdout[-300:]
            has_demo = False
    with_change = nextest(repo, target)
    res["with_change"] = with_change
    baseline_fail = "raft::filestore::raftlog::tests::write_index_equal_error_when_index_mismatch"
    demo_failed = [n for n in with_change["failed_names"] if baseline_fail not in n]
    stable = {n.split("::", 1)[1] for n in json.load(open("/root/.vp/BASELINE.json"))["stable_pass"]}
    broken_existing = [n for n in with_change["failed_names"] if n.split()[-1] in stable]
    res["existing_tests_broken_by_change"] = broken_existing
    res["existing_tests_pass_with_change"] = (not with_change["compile_error"]) and with_change["passed"] is not None and not broken_existing \
        and with_change["passed"] >= 36
    res["demo_fails_with_change"] = bool(demo_failed) if has_demo else None
    if has_demo:
        # without the change, with the demonstration
        sh(["git", "-C", repo, "checkout", "-q", "--", "."])
        sh(["git", "-C", repo, "clean", "-fdq"])
        sh(["git", "-C", repo, "apply", "--whitespace=nowarn", demo])
        without = nextest(repo, target)
        res["without_change"] = without
        res["demo_passes_without_change"] = (not without["compile_error"]) and [n for n in without["failed_names"] if baseline_fail not in n] == []
    if script and res.get("demo_fails_with_change") is None:
        # black-box demonstration: `<script> <rnacos binary>` exits 0 when the property holds, 1 when it is violated
        feat = ["--features", "debug"] if "features debug" in open(script).read() else []
        env = dict(os.environ)
        env.update({"CARGO_TARGET_DIR": target, "CARGO_NET_OFFLINE": "true"})
        runs = {}
        for label, with_patch in (("with_change", True), ("without_change", False)):
            sh(["git", "-C", repo, "checkout", "-q", "--", "."])
            sh(["git", "-C", repo, "clean", "-fdq"])
            if with_patch:
                sh(["git", "-C", repo, "apply", "--whitespace=nowarn", patch])
            b = sh(["cargo", "build", "--offline", "--bin", "rnacos"] + feat, cwd=repo, env=env, timeout=2400)
            if b.returncode != 0:
                runs[label] = {"build_error": b.stdout[-400:]}
                continue
            binary = os.path.join(base, "rnacos-%s" % label)
            sh(["cp", os.path.join(target, "debug", "rnacos"), binary])
            interp = ["bash"] if script.endswith(".sh") else [sys.executable]
            try:
                r = sh(interp + [script, binary], cwd=d, timeout=900)
                runs[label] = {"exit": r.returncode, "tail": r.stdout[-500:]}
            except subprocess.TimeoutExpired:
                runs[label] = {"exit": None, "tail": "timeout"}
        res["script_demo"] = runs
        res["demo_fails_with_change"] = runs.get("with_change", {}).get("exit") not in (0, None)
        res["demo_passes_without_change"] = runs.get("without_change", {}).get("exit") == 0
    sh(["git", "-C", repo, "checkout", "-q", "--", "."])
    sh(["git", "-C", repo, "clean", "-fdq"])
    return res


def evaluate(slot, sid, tiers=("quick",)):
    d = os.path.join(VERIF, "seeded", sid)
    prop = sid.split("-")[0]
    manifest = json.load(open(os.path.join(VERIF, "MANIFEST.json")))
    claimed = {c["property_id"] for c in manifest["checks"]}
    checks = [c for c in RELATED.get(prop, [prop.upper()]) if c in claimed]
    out = []
    for tier in tiers:
        p = sh([sys.executable, os.path.join(VERIF, "tools_mutant.py"), "run", slot, os.path.join(d, "patch.diff")] + ["%s:%s" % (c, tier) for c in checks])
        got = [json.loads(line) for line in p.stdout.splitlines() if line.startswith("{")]
        # an inconclusive or crashed run (exit 3 / other) says nothing about the change: run those checks once more
        again = [r["check"] for r in got if r.get("exit") not in (0, 1) and not r.get("error")]
        if again:
            p2 = sh([sys.executable, os.path.join(VERIF, "tools_mutant.py"), "run", slot, os.path.join(d, "patch.diff")] + ["%s:%s" % (c, tier) for c in again])
            redo = {r["check"]: r for r in (json.loads(line) for line in p2.stdout.splitlines() if line.startswith("{"))}
            got = [dict(redo[r["check"]], first_attempt_exit=r.get("exit")) if r.get("check") in redo else r for r in got]
        out.extend(got)
        if any(r.get("violations") for r in out):
            break
    return out


def main():
    slot = sys.argv[1]
    for sid in [a for a in sys.argv[2:] if not a.startswith('--')]:
        d = os.path.join(VERIF, "seeded", sid)
        t0 = time.time()
        meta = {}
        if os.path.exists(os.path.join(d, "agent_meta.json")):
            try:
                am = json.load(open(os.path.join(d, "agent_meta.json")))
                meta.update({"property": am.get("property"), "summary": am.get("summary"), "needs_to_manifest": am.get("needs_to_manifest"), "files": am.get("files")})
            except Exception:
                pass
        meta["property"] = meta.get("property") or sid.split("-")[0].upper()
        old = {}
        if os.path.exists(os.path.join(d, "meta.json")):
            try:
                old = json.load(open(os.path.join(d, "meta.json")))
            except Exception:
                old = {}
        if "--eval-only" in sys.argv and old.get("confirmation"):
            meta["confirmation"] = old["confirmation"]
            meta["earlier_runs"] = (old.get("earlier_runs") or []) + [{"caught_by": old.get("caught_by"), "checks_run": [{k: r.get(k) for k in ("check", "tier", "exit", "violations")} for r in old.get("checks_run", [])]}]
        else:
            meta["confirmation"] = confirm(slot, sid)
        tiers = ("quick", "thorough") if "--thorough" in sys.argv else ("quick",)
        meta["checks_run"] = evaluate(slot, sid, tiers)
        meta["caught_by"] = sorted({"%s %s" % (r["check"], r["tier"]) for r in meta["checks_run"] if r.get("violations")})
        meta["what_was_run"] = "tools_seeded.py %s %s (scratch worktree + copy of /verif under /tmp/mslot-%s; cargo nextest run -p rnacos with patch+demo, then demo only; ./check <ID> quick with the patch applied)" % (slot, sid, slot)
        meta["wall_s"] = round(time.time() - t0)
        json.dump(meta, open(os.path.join(d, "meta.json"), "w"), indent=1)
        c = meta["confirmation"]
        print(sid, "tests_ok=%s demo_fails=%s demo_passes_clean=%s caught_by=%s" % (c.get("existing_tests_pass_with_change"), c.get("demo_fails_with_change"), c.get("demo_passes_without_change"), meta["caught_by"]), flush=True)


if __name__ == "__main__":
    main()
